"""C11: drive the real strax planner (Context.get_components / get_iter / make) and the two processors'
wiring on generated plugin graphs.

A *graph* is a JSON-able dict
  {"n": <number of data types>, "kinds": [kind id per data type],
   "plugins": [{"prov": [dt...], "deps": [dt...], "sw": [save_when per output]} ...]}
data types are integers 0..n-1 numbered topologically (every dependency of a plugin is smaller than
every one of its outputs); the strax names are "t00", "t01", ...; data kinds "k00", ...
The temporary merge plugin get_iter registers for several same-kind targets is data type n, plugin
index len(plugins) (that is where the model's get_iter_rewrite puts it).

A *case* is {"frontends": [{"readonly","take_only","exclude","stored"}...], "forbid": [...],
  "forbid_all", "fuzzy", "allow_incomplete", "targets": [...], "save": [...],
  "time_range", "selection", "columns"}.
"""
import contextlib
import io
import logging
import os
import shutil
import threading

import numpy as np
import strax
from immutabledict import immutabledict

RUN_ID = "0"
N_CHUNKS = 2
ROWS_PER_CHUNK = 2
CHUNK_LEN = 10

COUNTS = {}           # plugin index -> number of compute calls (reset per case)
_COUNT_LOCK = threading.Lock()


def tname(i):
    return "t%02d" % i


def kname(i):
    return "k%02d" % i


def tid(name, graph=None):
    if name.startswith("_temp"):
        return graph["n"] if graph else -1
    return int(name[1:])


def _dtype_for(i):
    return np.dtype([(("Start time", "time"), np.int64), (("End time", "endtime"), np.int64),
                     (("value of %s" % tname(i), "v_" + tname(i)), np.int64)])


def _bump(j):
    with _COUNT_LOCK:
        COUNTS[j] = COUNTS.get(j, 0) + 1


def build_classes(graph, tag="G"):
    """One strax.Plugin subclass per plugin of the graph."""
    classes = []
    kinds = graph["kinds"]
    for j, p in enumerate(graph["plugins"]):
        prov = [tname(d) for d in p["prov"]]
        deps = tuple(tname(d) for d in p["deps"])
        multi = len(prov) > 1
        attrs = {
            "__version__": "0.0.%d" % j,
            "depends_on": deps,
            "provides": tuple(prov),
            "rechunk_on_save": False,
            "parallel": False,
            "_c11_index": j,
            "_c11_prov": list(p["prov"]),
        }
        if multi:
            attrs["data_kind"] = immutabledict({tname(d): kname(kinds[d]) for d in p["prov"]})
            attrs["dtype"] = {tname(d): _dtype_for(d) for d in p["prov"]}
            attrs["save_when"] = immutabledict({tname(d): strax.SaveWhen(s) for d, s in zip(p["prov"], p["sw"])})
        else:
            attrs["data_kind"] = kname(kinds[p["prov"][0]])
            attrs["dtype"] = _dtype_for(p["prov"][0])
            attrs["save_when"] = strax.SaveWhen(p["sw"][0])

        if not deps:
            def source_finished(self):
                return True

            def is_ready(self, chunk_i):
                return chunk_i < N_CHUNKS

            def compute(self, chunk_i):
                _bump(self._c11_index)
                out = {}
                t0 = chunk_i * CHUNK_LEN
                for d in self._c11_prov:
                    r = np.zeros(ROWS_PER_CHUNK, _dtype_for(d))
                    r["time"] = t0 + np.arange(ROWS_PER_CHUNK)
                    r["endtime"] = r["time"] + 1
                    r["v_" + tname(d)] = 1000 * d + r["time"]
                    out[tname(d)] = self.chunk(start=t0, end=t0 + CHUNK_LEN, data=r, data_type=tname(d))
                if len(out) == 1:
                    return list(out.values())[0]
                return out

            attrs.update(source_finished=source_finished, is_ready=is_ready, compute=compute)
        else:
            def compute(self, **kwargs):
                _bump(self._c11_index)
                first = list(kwargs.values())[0]
                out = {}
                for d in self._c11_prov:
                    r = np.zeros(len(first), _dtype_for(d))
                    r["time"] = first["time"]
                    r["endtime"] = first["endtime"]
                    r["v_" + tname(d)] = 1000 * d + r["time"]
                    out[tname(d)] = r
                if len(out) == 1:
                    return list(out.values())[0]
                return out

            attrs.update(compute=compute)
        classes.append(type("C11%sP%02d" % (tag, j), (strax.Plugin,), attrs))
    return classes


def set_policies(classes, graph, force_always=False):
    """(Re)set the class-level save_when (the registry holds classes; strax's own tests do the same)."""
    for cls, p in zip(classes, graph["plugins"]):
        sws = [3] * len(p["sw"]) if force_always else p["sw"]
        if len(p["prov"]) > 1:
            cls.save_when = immutabledict({tname(d): strax.SaveWhen(s) for d, s in zip(p["prov"], sws)})
        else:
            cls.save_when = strax.SaveWhen(sws[0])


@contextlib.contextmanager
def silence():
    """strax prints ("Source finished!", "Removing old incomplete data") and logs; worker threads dump
    tracebacks through threading.excepthook.  None of that may reach the check's stdout."""
    old_hook = threading.excepthook
    threading.excepthook = lambda args: None
    logging.disable(logging.CRITICAL)
    buf = io.StringIO()
    try:
        with contextlib.redirect_stdout(buf), contextlib.redirect_stderr(buf):
            yield buf
    finally:
        logging.disable(logging.NOTSET)
        threading.excepthook = old_hook


class MasterFailed(Exception):
    """Computing and storing everything from scratch (empty storage, policies ALWAYS) already fails."""

    def __init__(self, graph, d, exc):
        Exception.__init__(self, "make(%s) from scratch failed: %s: %s" % (tname(d), type(exc).__name__, str(exc)[:200]))
        self.graph, self.d, self.exc = graph, d, exc


def prepare_master(graph, classes, master_dir):
    """Compute and store every data type once (policies forced to ALWAYS); returns {dt: dirname}."""
    if os.path.exists(master_dir):
        shutil.rmtree(master_dir)
    os.makedirs(master_dir)
    set_policies(classes, graph, force_always=True)
    try:
        with silence():
            st = strax.Context(storage=[strax.DataDirectory(master_dir)], register=classes,
                               allow_multiprocess=False, allow_lazy=False, timeout=20)
            for d in range(graph["n"]):
                try:
                    st.make(RUN_ID, tname(d), processor="single_thread", progress_bar=False)
                except Exception as e:  # noqa
                    raise MasterFailed(graph, d, e)
    finally:
        set_policies(classes, graph)
    out = {}
    for fn in sorted(os.listdir(master_dir)):
        parts = fn.split("-")
        if len(parts) == 3 and not fn.endswith("_temp"):
            out[tid(parts[1])] = fn
    assert sorted(out) == list(range(graph["n"])), (out, graph)
    return out


def listing(path):
    """Set of data types with a complete directory in a DataDirectory path."""
    out = set()
    if not os.path.isdir(path):
        return out
    for fn in os.listdir(path):
        parts = fn.split("-")
        if len(parts) == 3 and not fn.endswith("_temp"):
            out.add(tid(parts[1]))
    return out


def clean_temp(path):
    if not os.path.isdir(path):
        return
    for fn in os.listdir(path):
        if fn.endswith("_temp"):
            shutil.rmtree(os.path.join(path, fn), ignore_errors=True)


def make_dirs(case, master_dir, dirs, workdir):
    """(Re)create one directory per frontend holding copies of the chosen stored data."""
    paths = []
    for k, fe in enumerate(case["frontends"]):
        path = os.path.join(workdir, "fe%d" % k)
        if os.path.exists(path):
            shutil.rmtree(path)
        os.makedirs(path)
        for d in fe["stored"]:
            shutil.copytree(os.path.join(master_dir, dirs[d]), os.path.join(path, dirs[d]))
        paths.append(path)
    return paths


def make_context(graph, classes, case, paths, timeout=8):
    fes = []
    for fe, path in zip(case["frontends"], paths):
        fes.append(strax.DataDirectory(
            path, readonly=bool(fe["readonly"]),
            take_only=tuple(tname(d) for d in fe["take_only"]),
            exclude=tuple(tname(d) for d in fe["exclude"])))
    forbid = tuple(tname(d) for d in case["forbid"])
    if case.get("forbid_all"):
        forbid = forbid + ("*",)
    opts = dict(allow_multiprocess=False, timeout=timeout, forbid_creation_of=forbid)
    if case.get("fuzzy"):
        opts["fuzzy_for"] = (tname(graph["n"] - 1),)
    if case.get("allow_incomplete"):
        opts["allow_incomplete"] = True
    st = strax.Context(storage=fes, register=classes, **opts)
    return st


def err_code(e):
    if isinstance(e, strax.DataNotAvailable):
        return 1
    if isinstance(e, KeyError):
        return 4
    if isinstance(e, ValueError):
        return 2
    if isinstance(e, RuntimeError):
        return 5
    return 99


def request_kwargs(case):
    kw = {}
    if case.get("time_range"):
        kw["time_range"] = (0, N_CHUNKS * CHUNK_LEN)
    if case.get("selection"):
        kw["selection"] = "time >= 0"
    if case.get("columns"):
        kw["keep_columns"] = ("time", "endtime")
    return kw


def _fe_index(saver):
    d = getattr(saver, "dirname", None)
    if d is None:
        return -1
    base = os.path.basename(os.path.dirname(d))
    return int(base[2:]) if base.startswith("fe") else -1


def components_obs(comps, graph):
    """Canonical view of a strax.ProcessorComponents."""
    n_plug = len(graph["plugins"])
    plugin_of = {}
    for k, p in comps.plugins.items():
        plugin_of[tid(k, graph)] = getattr(p, "_c11_index", n_plug)
    savers = {}
    for k, v in comps.savers.items():
        if v:
            savers[tid(k, graph)] = sorted(_fe_index(s) for s in v)
    return {"err": 0,
            "plugins": [tid(k, graph) for k in comps.plugins],      # insertion order = DFS preorder
            "plugin_of": plugin_of,
            "loaders": [tid(k, graph) for k in comps.loaders],
            "savers": savers,
            "final": [tid(k, graph) for k in comps.targets]}


def observe_components(st, graph, case):
    """Call the real get_components on the targets as given."""
    targets = tuple(tname(d) for d in case["targets"])
    save = tuple(tname(d) for d in case["save"])
    try:
        with silence():
            comps = st.get_components(RUN_ID, targets=targets, save=save, **request_kwargs(case))
    except Exception as e:  # noqa
        return {"err": err_code(e), "exc": type(e).__name__, "msg": str(e)[:120]}, None
    return components_obs(comps, graph), comps


# ---------------------------------------------------------------------------------------------
# Processor wiring, read off the constructed (not started) processors
# ---------------------------------------------------------------------------------------------

def _origin_of_iterable(src, topic, graph):
    code = getattr(src, "gi_code", None)
    frame = getattr(src, "gi_frame", None)
    if code is not None and code.co_name == "iter" and frame is not None and "self" in frame.f_locals:
        return "P%d" % getattr(frame.f_locals["self"], "_c11_index", len(graph["plugins"]))
    return "L%d" % topic


def observe_single_wiring(comps, graph):
    """topic -> producer as registered in the PostOffice of a SingleThreadProcessor."""
    try:
        with silence():
            proc = strax.SingleThreadProcessor(comps)
    except RuntimeError as e:
        return {"err": 5, "msg": str(e)[:100]}
    po = proc.post_office
    wires = []
    for topic, it in po._producers.items():
        t = tid(topic, graph)
        wires.append("%d%s" % (t, _origin_of_iterable(it, t, graph)))
    return {"err": 0, "wires": sorted(wires)}


def observe_threaded_wiring(comps, graph, lazy=True):
    """(topic, sender) pairs of a ThreadedMailboxProcessor: loader / build senders per mailbox and, for each
    multi-output divider, the mailboxes it is given (restricted to its `outputs` when that is narrower)."""
    try:
        with silence():
            proc = strax.ThreadedMailboxProcessor(comps, max_workers=None, allow_lazy=lazy, timeout=8)
    except Exception as e:  # noqa
        return {"err": err_code(e), "msg": str(e)[:100]}
    wires = []
    for name, mb in proc.mailboxes.items():
        senders = [t for t in mb._threads if t._target == mb._send_from]
        readers = [t for t in mb._threads if t._target != mb._send_from]
        if name.endswith("_divide_outputs"):
            idx = None
            for t in senders:
                idx = _origin_of_iterable(t._args[0], -1, graph)
            for t in readers:
                kw = dict(getattr(t._target, "keywords", None) or {})
                kw.update(t._kwargs or {})
                if "mailboxes" in kw:
                    fed = list(kw["mailboxes"].keys())
                    outs = kw.get("outputs")
                    if outs is not None:
                        fed = [k for k in fed if k in tuple(outs)]
                    for k in fed:
                        wires.append("%d%s" % (tid(k, graph), idx))
        else:
            for t in senders:
                tt = tid(name, graph)
                wires.append("%d%s" % (tt, _origin_of_iterable(t._args[0], tt, graph)))
    return {"err": 0, "wires": sorted(wires)}


# ---------------------------------------------------------------------------------------------
# End-to-end execution (get_array / make) with counters, directory listings, sender log
# ---------------------------------------------------------------------------------------------

def run_exec(st, graph, case, paths, entry="get_array", processor="single_thread"):
    """Run the request for real.  Returns the observation dict."""
    targets = tuple(tname(d) for d in case["targets"])
    if len(targets) == 1:
        targets_arg = targets[0]
    else:
        targets_arg = targets
    save = tuple(tname(d) for d in case["save"])
    kw = request_kwargs(case)
    COUNTS.clear()
    before = [sorted(listing(p)) for p in paths]
    spied = []
    sends = {}
    orig_gc = strax.Context.get_components
    orig_send = strax.Mailbox.send

    def spy_gc(self, *a, **k):
        c = orig_gc(self, *a, **k)
        spied.append(components_obs(c, graph))
        return c

    def spy_send(self, msg, msg_number=None):
        if msg is not StopIteration:
            with _COUNT_LOCK:
                sends.setdefault(self.name, set()).add(threading.current_thread().name)
        return orig_send(self, msg, msg_number=msg_number)

    obs = {"entry": entry, "processor": processor}
    strax.Context.get_components = spy_gc
    strax.Mailbox.send = spy_send
    try:
        with silence():
            try:
                if entry == "make":
                    st.make(RUN_ID, targets_arg, save=save, processor=processor, **kw)
                    obs["rows"] = None
                else:
                    a = st.get_array(RUN_ID, targets_arg, save=save, processor=processor, progress_bar=False, **kw)
                    obs["rows"] = int(len(a))
                    obs["fields"] = sorted(a.dtype.names)
                    obs["times"] = [int(x) for x in a["time"]]
                obs["err"] = 0
            except Exception as e:  # noqa
                obs["err"] = err_code(e)
                obs["exc"] = type(e).__name__
                obs["msg"] = str(e)[:160]
    finally:
        strax.Context.get_components = orig_gc
        strax.Mailbox.send = orig_send
        # temporary merge plugins are removed by get_iter itself; be safe
        for k in list(st._plugin_class_registry.keys()):
            if k.startswith("_temp"):
                del st._plugin_class_registry[k]
    obs["counts"] = {int(k): int(v) for k, v in sorted(COUNTS.items())}
    obs["before"] = before
    obs["after"] = [sorted(listing(p)) for p in paths]
    obs["components"] = spied[-1] if spied else None
    obs["n_plans"] = len(spied)
    multi = {}
    for mb, names in sends.items():
        if mb.endswith("_divide_outputs_mailbox"):
            continue
        if len(names) > 1:
            multi[mb.replace("_mailbox", "")] = sorted(names)
    obs["multi_sender_mailboxes"] = multi
    obs["senders"] = {k: sorted(v) for k, v in sorted(sends.items())}
    return obs
