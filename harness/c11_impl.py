"""C11: drive the real strax planner (Context.get_components / get_iter / make) on generated plugin graphs.

A *graph* is a JSON-able dict
  {"n": <number of data types>, "kinds": [kind id per data type],
   "plugins": [{"prov": [dt...], "deps": [dt...], "sw": [save_when per output]} ...]}
data types are integers 0..n-1 numbered topologically (every dependency of a plugin is smaller than
every one of its outputs); the strax names are "t00", "t01", ...; data kinds "k00", ...
"""
import os
import shutil
import threading
import logging

import numpy as np
import strax
from immutabledict import immutabledict

RUN_ID = "0"
N_CHUNKS = 2
ROWS_PER_CHUNK = 2
CHUNK_LEN = 10

COUNTS = {}           # plugin index -> number of compute calls (reset per case)
_COUNT_LOCK = threading.Lock()


def tname(i):
    return "t%02d" % i


def kname(i):
    return "k%02d" % i


def tid(name):
    return int(name[1:])


def _dtype_for(i):
    return np.dtype([(("Start time", "time"), np.int64), (("End time", "endtime"), np.int64),
                     (("value of %s" % tname(i), "v_" + tname(i)), np.int64)])


def _bump(j):
    with _COUNT_LOCK:
        COUNTS[j] = COUNTS.get(j, 0) + 1


def build_classes(graph, tag="G"):
    """One strax.Plugin subclass per plugin of the graph."""
    classes = []
    kinds = graph["kinds"]
    for j, p in enumerate(graph["plugins"]):
        prov = [tname(d) for d in p["prov"]]
        deps = tuple(tname(d) for d in p["deps"])
        multi = len(prov) > 1
        attrs = {
            "__version__": "0.0.%d" % j,
            "depends_on": deps,
            "provides": tuple(prov),
            "rechunk_on_save": False,
            "parallel": False,
            "_c11_index": j,
            "_c11_prov": list(p["prov"]),
        }
        if multi:
            attrs["data_kind"] = immutabledict({tname(d): kname(kinds[d]) for d in p["prov"]})
            attrs["dtype"] = {tname(d): _dtype_for(d) for d in p["prov"]}
            attrs["save_when"] = immutabledict({tname(d): strax.SaveWhen(s) for d, s in zip(p["prov"], p["sw"])})
        else:
            attrs["data_kind"] = kname(kinds[p["prov"][0]])
            attrs["dtype"] = _dtype_for(p["prov"][0])
            attrs["save_when"] = strax.SaveWhen(p["sw"][0])

        if not deps:
            def source_finished(self):
                return True

            def is_ready(self, chunk_i):
                return chunk_i < N_CHUNKS

            def compute(self, chunk_i):
                _bump(self._c11_index)
                out = {}
                t0 = chunk_i * CHUNK_LEN
                for d in self._c11_prov:
                    r = np.zeros(ROWS_PER_CHUNK, _dtype_for(d))
                    r["time"] = t0 + np.arange(ROWS_PER_CHUNK)
                    r["endtime"] = r["time"] + 1
                    r["v_" + tname(d)] = 1000 * d + r["time"]
                    out[tname(d)] = self.chunk(start=t0, end=t0 + CHUNK_LEN, data=r, data_type=tname(d))
                if len(out) == 1:
                    return list(out.values())[0]
                return out

            attrs.update(source_finished=source_finished, is_ready=is_ready, compute=compute)
        else:
            def compute(self, **kwargs):
                _bump(self._c11_index)
                first = list(kwargs.values())[0]
                out = {}
                for d in self._c11_prov:
                    r = np.zeros(len(first), _dtype_for(d))
                    r["time"] = first["time"]
                    r["endtime"] = first["endtime"]
                    r["v_" + tname(d)] = 1000 * d + r["time"]
                    out[tname(d)] = r
                if len(out) == 1:
                    return list(out.values())[0]
                return out

            attrs.update(compute=compute)
        classes.append(type("C11%sP%02d" % (tag, j), (strax.Plugin,), attrs))
    return classes


def set_policies(classes, graph, force_always=False):
    """(Re)set the class-level save_when (the registry holds classes; tests in strax do the same)."""
    for cls, p in zip(classes, graph["plugins"]):
        sws = [3] * len(p["sw"]) if force_always else p["sw"]
        if len(p["prov"]) > 1:
            cls.save_when = immutabledict({tname(d): strax.SaveWhen(s) for d, s in zip(p["prov"], sws)})
        else:
            cls.save_when = strax.SaveWhen(sws[0])


def quiet():
    for name in ("strax", "Context", "strax.context"):
        logging.getLogger(name).setLevel(logging.CRITICAL)
    logging.getLogger().setLevel(logging.CRITICAL)


def prepare_master(graph, classes, master_dir):
    """Compute and store every data type once (policies forced to ALWAYS); returns {dt: dirname}."""
    if os.path.exists(master_dir):
        shutil.rmtree(master_dir)
    os.makedirs(master_dir)
    set_policies(classes, graph, force_always=True)
    st = strax.Context(storage=[strax.DataDirectory(master_dir)], register=classes,
                       allow_multiprocess=False, allow_lazy=False, timeout=20)
    st.log.setLevel(logging.CRITICAL)
    for d in range(graph["n"]):
        st.make(RUN_ID, tname(d), processor="single_thread", progress_bar=False)
    set_policies(classes, graph)
    out = {}
    for fn in sorted(os.listdir(master_dir)):
        parts = fn.split("-")
        if len(parts) == 3 and not fn.endswith("_temp"):
            out[tid(parts[1])] = fn
    assert sorted(out) == list(range(graph["n"])), (out, graph)
    return out


def listing(path):
    """Set of data types with a complete directory in a DataDirectory path."""
    out = set()
    if not os.path.isdir(path):
        return out
    for fn in os.listdir(path):
        parts = fn.split("-")
        if len(parts) == 3 and not fn.endswith("_temp"):
            out.add(tid(parts[1]))
    return out


def temp_listing(path):
    if not os.path.isdir(path):
        return []
    return sorted(fn for fn in os.listdir(path) if fn.endswith("_temp"))


class Case:
    """One request: see run_case."""


def make_context(graph, classes, case, master_dir, dirs, workdir):
    """Build frontends (copying the chosen stored directories from the master) and the Context."""
    fes = []
    for k, fe in enumerate(case["frontends"]):
        path = os.path.join(workdir, "fe%d" % k)
        if os.path.exists(path):
            shutil.rmtree(path)
        os.makedirs(path)
        for d in fe["stored"]:
            shutil.copytree(os.path.join(master_dir, dirs[d]), os.path.join(path, dirs[d]))
        fes.append(strax.DataDirectory(
            path, readonly=bool(fe["readonly"]),
            take_only=tuple(tname(d) for d in fe["take_only"]),
            exclude=tuple(tname(d) for d in fe["exclude"])))
    forbid = tuple(tname(d) for d in case["forbid"])
    if case.get("forbid_all"):
        forbid = forbid + ("*",)
    opts = dict(allow_multiprocess=False, timeout=15, forbid_creation_of=forbid)
    if case.get("fuzzy"):
        opts["fuzzy_for"] = (tname(graph["n"] - 1),)
    if case.get("allow_incomplete"):
        opts["allow_incomplete"] = True
    st = strax.Context(storage=fes, register=classes, **opts)
    st.log.setLevel(logging.CRITICAL)
    return st, [os.path.join(workdir, "fe%d" % k) for k in range(len(fes))]


ERR_KINDS = {"DataNotAvailable": 1, "ValueError": 2}


def request_kwargs(case):
    kw = {}
    if case.get("time_range"):
        kw["time_range"] = (0, N_CHUNKS * CHUNK_LEN)
    if case.get("selection"):
        kw["selection"] = "time >= 0"
    if case.get("columns"):
        kw["keep_columns"] = ("time", "endtime")
    return kw


def observe_components(st, case):
    """Call the real get_components; returns a canonical observation dict."""
    targets = tuple(tname(d) for d in case["targets"])
    save = tuple(tname(d) for d in case["save"])
    try:
        comps = st.get_components(RUN_ID, targets=targets, save=save, **request_kwargs(case))
    except strax.DataNotAvailable:
        return {"err": 1}
    except ValueError as e:
        return {"err": 2, "msg": str(e)[:80]}
    return components_obs(comps)


def components_obs(comps):
    plug_keys = [tid(k) for k in comps.plugins]            # insertion order = DFS preorder
    plugin_ids = {}
    for k, p in comps.plugins.items():
        plugin_ids[tid(k)] = p._c11_index if hasattr(p, "_c11_index") else -1
    savers = {}
    for k, v in comps.savers.items():
        if v:
            savers[tid(k)] = len(v)
    saver_dirs = {}
    for k, v in comps.savers.items():
        saver_dirs[tid(k)] = sorted(os.path.dirname(s.dirname) if hasattr(s, "dirname") else "?" for s in v)
    return {"err": 0, "plugins": plug_keys, "plugin_of": plugin_ids,
            "loaders": sorted(tid(k) for k in comps.loaders),
            "loader_order": [tid(k) for k in comps.loaders],
            "savers": savers, "saver_dirs": saver_dirs,
            "targets": [k for k in comps.targets]}
