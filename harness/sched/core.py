"""Controlled scheduler: deterministic, replayable execution of real Python threads.

Every *controlled* thread is a real OS thread that runs only while it holds the baton.  It gives the
baton back to the controller (the harness thread that calls ``Scheduler.step``) at its *yield points*:

  * before an outermost acquisition of a controlled ``RLock``/``Lock`` (``with lock:``),
  * inside ``Condition.wait`` (the thread is then *waiting* until notified),
  * in ``Future.result`` / ``Thread.join`` / ``futures.wait`` when the awaited thing is not finished,
  * optionally after the outermost release of a lock (``yield_on_release=True``),
  * at thread exit.

So one ``step(tid)`` executes one lock-held region plus the lock-free code that follows it, up to the
thread's next yield point.  Between steps no controlled thread runs; the controller can inspect any
state it likes.  A thread is *enabled* iff it is parked at a yield point it can leave: runnable, wants a
lock that is free, was notified and the condition's lock is free, or awaits something finished.  Live
threads with no enabled thread = deadlock (this is what a real run reports as a timeout).

Timeouts passed to ``wait``/``wait_for``/``result``/``join`` never expire by themselves.  The controller
may *fire* one explicitly (``fire_timeout``) to follow the code's own timeout path after a deadlock.

Nothing here knows about strax.  Install with ``Scheduler.patch(module)`` which replaces the module's
``threading`` attribute (and ``Future`` / ``futures`` / executor names when present) by shims bound to
this scheduler.  See design_notes/C05.md for the API description.
"""
import _thread
import threading as _real_threading
from concurrent.futures import Future as _RealFuture

NEW, READY, RUNNING, WANT_LOCK, WAITING, BLOCKED, DONE = (
    "new", "ready", "running", "want_lock", "waiting", "blocked", "done")


class SchedAbort(BaseException):
    """Raised inside parked threads to unwind them when a run is torn down."""


class SchedError(RuntimeError):
    """Misuse of the scheduler (stepping a thread that is not enabled, blocking in the controller...)."""


class _Baton:
    """Binary hand-off built on a raw lock (much faster than threading.Semaphore)."""
    __slots__ = ("_l",)

    def __init__(self):
        self._l = _thread.allocate_lock()
        self._l.acquire()

    def give(self):
        self._l.release()

    def take(self):
        self._l.acquire()


class _OSThreadPool:
    """OS threads are expensive to create (about 1 ms here), and every explored schedule needs fresh
    controlled threads; so the OS threads are pooled and reused across runs.  A pooled thread is idle
    (parked on its own baton) whenever no controlled thread is mapped onto it."""

    def __init__(self):
        self.idle = []
        self.all = []

    class _Worker:
        def __init__(self, pool):
            self.pool = pool
            self.baton = _Baton()
            self.job = None
            self.thread = _real_threading.Thread(target=self._loop, name="sched-pool-%d" % len(pool.all),
                                                 daemon=True)
            self.thread.start()

        def _loop(self):
            while True:
                self.baton.take()
                job, self.job = self.job, None
                if job is None:
                    return
                job(self)

    def submit(self, job):
        """job(worker) runs on a pooled OS thread; it must call pool.release(worker) when done."""
        w = self.idle.pop() if self.idle else None
        if w is None:
            w = self._Worker(self)
            self.all.append(w)
        w.job = job
        w.baton.give()

    def release(self, w):
        self.idle.append(w)

    def busy(self):
        return len(self.all) - len(self.idle)

    def shutdown(self):
        """Terminate the idle OS threads (all of them, when no scheduler run is in progress)."""
        for w in list(self.idle):
            w.job = None
            w.baton.give()
            w.thread.join()
            self.all.remove(w)
        self.idle = []


POOL = _OSThreadPool()


def shutdown_pool():
    POOL.shutdown()


def pool_threads():
    """(number of pooled OS threads, number of them currently running a controlled thread)"""
    return len(POOL.all), POOL.busy()


class Scheduler:
    def __init__(self, yield_on_release=False):
        self.yield_on_release = yield_on_release
        self.threads = []          # controlled threads in creation order; tid = index
        self._by_ident = {}
        self._ctl = _Baton()
        self.aborting = False
        self.steps = 0
        self.schedule = []         # tids stepped so far
        self._driver = None
        self._driver_error = None
        self.threading = ThreadingShim(self)
        self.futures = FuturesShim(self)
        self._patched = []
        global CURRENT
        if CURRENT is not None and not CURRENT.aborting:
            raise SchedError("another Scheduler is still active in this process; shut it down first")
        CURRENT = self

    # ------------------------------------------------------------------ identity
    def me(self):
        """The controlled thread executing the caller, or None in the controller / foreign threads."""
        return self._by_ident.get(_thread.get_ident())

    # ------------------------------------------------------------------ thread side
    def _park(self, t, state, obj=None, pred=None):
        """Yield point: give the baton up and sleep until this thread is chosen again."""
        if self.aborting:
            raise SchedAbort()
        t.state, t.obj, t.pred = state, obj, pred
        self._dispatch(t)
        if self.aborting:
            raise SchedAbort()
        t.state, t.obj, t.pred = RUNNING, None, None

    def _dispatch(self, t):
        """Called by the thread `t` that has just parked (or finished).  With a driver installed the
        parking thread itself asks it who runs next: the same thread simply continues (no OS context
        switch), another thread gets the baton directly, None hands control back to the controller."""
        nxt = None
        drv = self._driver
        if drv is not None:
            try:
                nxt = drv(self)
                if nxt is not None and not self._is_enabled(self.threads[nxt]):
                    raise SchedError("driver chose thread %d which is not enabled" % nxt)
            except BaseException as e:      # noqa: never let harness errors escape into the code under test
                self._driver_error = e
                nxt = None
        alive = t.state != DONE
        if nxt is None:
            self._ctl.give()
            if alive:
                t._go.take()
            return
        self.steps += 1
        self.schedule.append(nxt)
        u = self.threads[nxt]
        if u is t:
            return
        u._go.give()
        if alive:
            t._go.take()

    def yield_point(self):
        """Explicit yield point usable from test code running in a controlled thread."""
        t = self.me()
        if t is not None:
            self._park(t, READY)

    def block_until(self, pred, what=None, timeout=None):
        """Park the calling controlled thread until ``pred()`` holds (checked by the controller).
        Returns True, or False when the controller fired the timeout of this wait."""
        t = self.me()
        if t is None:
            if not pred():
                raise SchedError("the controller would block on %r" % (what,))
            return True
        if pred():
            return True
        t.timed, t.timed_out = timeout is not None, False
        while not pred():
            self._park(t, BLOCKED, what, pred)
            if t.timed_out:
                t.timed_out = False
                return bool(pred())
        return True

    # ------------------------------------------------------------------ controller side
    def _is_enabled(self, t):
        s = t.state
        if s == READY:
            return True
        if s == WANT_LOCK:
            return t.obj._owner is None
        if s == WAITING:
            return (t.notified or t.timed_out) and t.obj._lock._owner is None
        if s == BLOCKED:
            return bool(t.pred()) or t.timed_out
        return False

    def enabled(self):
        return [t.tid for t in self.threads if self._is_enabled(t)]

    def live(self):
        """Started threads that have not finished."""
        return [t.tid for t in self.threads if t.state not in (NEW, DONE)]

    def status(self, tid):
        """'new' | 'runnable' (enabled) | 'blocked' (parked, cannot proceed) | 'done' | 'dead' (exception)"""
        t = self.threads[tid]
        if t.state == NEW:
            return "new"
        if t.state == DONE:
            return "dead" if t.exc is not None else "done"
        return "runnable" if self._is_enabled(t) else "blocked"

    def blocked_on(self, tid):
        """(state, object) the thread is parked on; for diagnostics."""
        t = self.threads[tid]
        return t.state, t.obj

    def deadlocked(self):
        return bool(self.live()) and not self.enabled()

    def run_driver(self, driver):
        """Fast path: ``driver(sched) -> tid | None`` is called at every yield point (first by the
        controller, afterwards by whichever controlled thread has just parked or finished, while no
        controlled thread runs) and names the thread to run next; None ends the call.  A thread chosen
        twice in a row continues without any OS context switch."""
        if self.me() is not None:
            raise SchedError("run_driver() called from a controlled thread")
        self._driver_error = None
        nxt = driver(self)
        if nxt is None:
            return
        t = self.threads[nxt]
        if not self._is_enabled(t):
            raise SchedError("thread %d (%s) is not enabled (state %s)" % (nxt, t.name, t.state))
        self._driver = driver
        try:
            self.steps += 1
            self.schedule.append(nxt)
            t._go.give()
            self._ctl.take()
        finally:
            self._driver = None
        if self._driver_error is not None:
            e, self._driver_error = self._driver_error, None
            raise e

    def step(self, tid):
        """Run thread ``tid`` from its current yield point to its next one."""
        todo = [tid]
        self.run_driver(lambda s: todo.pop() if todo else None)

    def timed_waiters(self):
        """Blocked threads whose current wait carries a timeout (candidates for fire_timeout)."""
        return [t.tid for t in self.threads
                if t.state in (WAITING, BLOCKED) and t.timed and not self._is_enabled(t)]

    def fire_timeout(self, tid):
        """Let the pending wait of ``tid`` time out: it becomes enabled and its wait returns False /
        raises TimeoutError when stepped."""
        t = self.threads[tid]
        if t.state not in (WAITING, BLOCKED) or not t.timed:
            raise SchedError("thread %d has no timed wait pending" % tid)
        t.timed_out = True

    def run(self, schedule):
        for tid in schedule:
            self.step(tid)

    def run_to_completion(self, choose=None, max_steps=100000):
        """Step until no thread is enabled.  choose(enabled_tids) -> tid (default: lowest tid).
        Returns 'complete' or 'deadlock' or 'limit'."""
        n = 0
        while True:
            en = self.enabled()
            if not en:
                return "deadlock" if self.live() else "complete"
            if n >= max_steps:
                return "limit"
            self.step(choose(en) if choose else en[0])
            n += 1

    def shutdown(self):
        """Unwind every parked thread (SchedAbort) and join the OS threads.  Always call this (or use
        the scheduler as a context manager): afterwards no thread of this scheduler is left."""
        self.aborting = True
        self._driver = None
        for t in self.threads:
            if t.state not in (NEW, DONE):
                t._go.give()
                self._ctl.take()
        self.unpatch()
        global CURRENT
        if CURRENT is self:
            CURRENT = None

    def __enter__(self):
        return self

    def __exit__(self, *a):
        self.shutdown()
        return False

    # ------------------------------------------------------------------ installation
    def patch(self, module):
        """Replace ``module.threading`` (and Future / futures / executor names, when the module has
        them) by this scheduler's shims.  Undone by shutdown()/unpatch()."""
        import concurrent.futures as cf
        for name, new in (("threading", self.threading), ("futures", self.futures),
                          ("ThreadPoolExecutor", self.futures.ThreadPoolExecutor),
                          ("wait", self.futures.wait)):
            if hasattr(module, name):
                old = getattr(module, name)
                if name == "wait" and old is not cf.wait:
                    continue
                if name == "futures" and old is not cf:
                    continue
                if name == "threading" and old is not _real_threading:
                    if isinstance(old, ThreadingShim):      # left over from an earlier scheduler
                        old = _real_threading
                    else:
                        continue
                if name == "ThreadPoolExecutor" and old is not cf.ThreadPoolExecutor:
                    continue
                self._patched.append((module, name, old))
                setattr(module, name, new)

    def unpatch(self):
        for module, name, old in reversed(self._patched):
            setattr(module, name, old)
        self._patched = []


# ----------------------------------------------------------------------------------------------
# threading shim
# ----------------------------------------------------------------------------------------------

class _CONTROLLER:      # owner token for locks taken by uncontrolled code between steps
    name = "<controller>"


CURRENT = None      # the scheduler new shim objects bind to (one active scheduler per process at a time)


def _current():
    if CURRENT is None:
        raise SchedError("no active Scheduler")
    return CURRENT


class RLock:
    """Re-entrant lock.  Yield point before every outermost acquisition by a controlled thread."""
    _reentrant = True

    def __init__(self):
        self._sched = _current()
        self._owner = None
        self._count = 0

    def _who(self):
        t = self._sched.me()
        return _CONTROLLER if t is None else t

    def acquire(self, blocking=True, timeout=-1):
        me = self._who()
        if self._owner is me and self._reentrant:
            self._count += 1
            return True
        if me is _CONTROLLER:
            if self._owner is None:
                self._owner, self._count = me, 1
                return True
            if not blocking:
                return False
            raise SchedError("the controller would block on a lock held by %s" % self._owner.name)
        if not blocking:
            if self._owner is None:
                self._owner, self._count = me, 1
                return True
            return False
        if self._owner is me:
            raise SchedError("non-reentrant lock acquired twice by %s (self-deadlock)" % me.name)
        self._sched._park(me, WANT_LOCK, self)
        if self._owner is not None:
            raise SchedError("lock handed to %s while held by %s" % (me.name, self._owner.name))
        self._owner, self._count = me, 1
        return True

    __enter__ = acquire

    def release(self):
        me = self._who()
        if self._owner is not me:
            if self._sched.aborting:
                return
            raise RuntimeError("cannot release un-acquired lock")
        self._count -= 1
        if self._count == 0:
            self._owner = None
            if self._sched.yield_on_release and me is not _CONTROLLER and not self._sched.aborting:
                self._sched._park(me, READY)

    def __exit__(self, *a):
        self.release()

    def locked(self):
        return self._owner is not None

    # used by Condition
    def _is_owned(self):
        return self._owner is self._who()

    def _release_save(self):
        saved = (self._owner, self._count)
        self._owner, self._count = None, 0
        return saved

    def _acquire_restore(self, saved):
        self._owner, self._count = saved

    def __repr__(self):
        return "<sched %s owner=%s count=%d>" % (
            type(self).__name__, getattr(self._owner, "name", None), self._count)

class Lock(RLock):
    _reentrant = False

class Condition:
    def __init__(self, lock=None):
        self._sched = _current()
        self._lock = lock if lock is not None else RLock()
        self._waiters = []
        self.acquire = self._lock.acquire
        self.release = self._lock.release

    def __enter__(self):
        return self._lock.__enter__()

    def __exit__(self, *a):
        return self._lock.__exit__(*a)

    def wait(self, timeout=None):
        me = self._sched.me()
        if me is None:
            raise SchedError("Condition.wait in the controller")
        if not self._lock._is_owned():
            raise RuntimeError("cannot wait on un-acquired lock")
        saved = self._lock._release_save()
        me.notified = False
        me.timed = timeout is not None
        me.timed_out = False
        self._waiters.append(me)
        self._sched._park(me, WAITING, self)      # enabled iff notified (or timeout fired) and lock free
        if self._lock._owner is not None:
            raise SchedError("condition lock handed over while held")
        self._lock._acquire_restore(saved)
        if me.timed_out:
            me.timed_out = False
            if me in self._waiters:
                self._waiters.remove(me)
            return False
        return True

    def wait_for(self, predicate, timeout=None):
        result = predicate()
        while not result:
            if not self.wait(timeout):
                return predicate()
            result = predicate()
        return result

    def notify(self, n=1):
        if not self._lock._is_owned():
            raise RuntimeError("cannot notify on un-acquired lock")
        for w in self._waiters[:n]:
            w.notified = True
        del self._waiters[:n]

    def notify_all(self):
        self.notify(len(self._waiters))

    notifyAll = notify_all

class Event:
    def __init__(self):
        self._sched = _current()
        self._flag = False

    def is_set(self):
        return self._flag

    isSet = is_set

    def set(self):
        self._flag = True

    def clear(self):
        self._flag = False

    def wait(self, timeout=None):
        self._sched.block_until(lambda: self._flag, self, timeout)
        return self._flag

class Thread:
    """Controlled thread.  tid = creation order.  Runs only while it holds the baton."""

    def __init__(self, group=None, target=None, name=None, args=(), kwargs=None, *, daemon=None):
        self._sched = _current()
        self._target, self._args, self._kwargs = target, args, kwargs or {}
        self.tid = len(self._sched.threads)
        self.name = name or "SchedThread-%d" % self.tid
        self.daemon = bool(daemon)
        self.state, self.obj, self.pred = NEW, None, None
        self.notified = self.timed = self.timed_out = False
        self.exc = None
        self.result = None
        self._go = _Baton()
        self.ident = None
        self._sched.threads.append(self)

    def start(self):
        if self.state != NEW:
            raise RuntimeError("threads can only be started once")
        self.state = READY
        POOL.submit(self._bootstrap)

    def run(self):
        if self._target is not None:
            self.result = self._target(*self._args, **self._kwargs)

    def _bootstrap(self, os_worker):
        self._go.take()
        self.ident = _thread.get_ident()
        self._sched._by_ident[self.ident] = self
        try:
            if not self._sched.aborting:
                self.state = RUNNING
                self.run()
        except SchedAbort:
            pass
        except BaseException as e:      # noqa: the thread died with e (threading.excepthook case)
            self.exc = e
        finally:
            self._target = self._args = self._kwargs = None
            self.state, self.obj, self.pred = DONE, None, None
            self._sched._by_ident.pop(self.ident, None)
            POOL.release(os_worker)
            self._sched._dispatch(self)

    def join(self, timeout=None):
        me = self._sched.me()
        if me is self:
            raise RuntimeError("cannot join current thread")
        if self.state == NEW:
            raise RuntimeError("cannot join thread before it is started")
        self._sched.block_until(lambda: self.state == DONE, self, timeout)

    def is_alive(self):
        return self.state not in (NEW, DONE)

    isAlive = is_alive

    def __repr__(self):
        return "<sched Thread %d %s %s>" % (self.tid, self.name, self.state)

class Future(_RealFuture):
    """concurrent.futures.Future whose result()/exception() are yield points."""

    def __init__(self):
        _RealFuture.__init__(self)
        self._sched = _current()

    def _await(self, timeout):
        if not self._sched.block_until(self.done, self, timeout):
            from concurrent.futures import TimeoutError as FTimeout
            raise FTimeout()

    def result(self, timeout=None):
        self._await(timeout)
        return _RealFuture.result(self, timeout=0)

    def exception(self, timeout=None):
        self._await(timeout)
        return _RealFuture.exception(self, timeout=0)

class Executor:
    """ThreadPoolExecutor stand-in: every submitted task runs in its own controlled thread, so all
    completion orders of any pool size are schedulable."""

    def __init__(self, max_workers=None, *a, **kw):
        self._sched = _current()
        self._threads = []
        self._shutdown = False

    def submit(self, fn, *args, **kwargs):
        if self._shutdown:
            raise RuntimeError("cannot schedule new futures after shutdown")
        f = Future()

        def work():
            if not f.set_running_or_notify_cancel():
                return
            try:
                r = fn(*args, **kwargs)
            except SchedAbort:
                raise
            except BaseException as e:
                f.set_exception(e)
            else:
                f.set_result(r)

        t = Thread(target=work, name="worker-%d" % len(self._threads))
        self._threads.append(t)
        t.start()
        return f

    def map(self, fn, *iterables, timeout=None, chunksize=1):
        fs = [self.submit(fn, *a) for a in zip(*iterables)]

        def gen():
            for f in fs:
                yield f.result()
        return gen()

    def shutdown(self, wait=True, cancel_futures=False):
        self._shutdown = True
        if wait:
            for t in self._threads:
                if t.state != DONE and self._sched.me() is not None:
                    t.join()

    def __enter__(self):
        return self

    def __exit__(self, *a):
        self.shutdown(wait=True)
        return False



class ThreadingShim:
    """Stands in for the ``threading`` module inside the patched module."""

    def __init__(self, sched):
        self._sched = sched
        self.RLock, self.Lock, self.Condition, self.Event, self.Thread = RLock, Lock, Condition, Event, Thread
        self._Future, self._Executor = Future, Executor

    def current_thread(self):
        t = self._sched.me()
        return t if t is not None else _real_threading.current_thread()

    currentThread = current_thread

    def get_ident(self):
        return _thread.get_ident()

    def enumerate(self):
        return [t for t in self._sched.threads if t.is_alive()] + [_real_threading.main_thread()]

    def active_count(self):
        return len(self.enumerate())

    def main_thread(self):
        return _real_threading.main_thread()

    def __getattr__(self, name):        # anything else: the real module
        return getattr(_real_threading, name)


class FuturesShim:
    """Stands in for the ``concurrent.futures`` module inside the patched module."""

    def __init__(self, sched):
        import concurrent.futures as cf
        self._sched = sched
        self._cf = cf
        self.Future = sched.threading._Future
        self.ThreadPoolExecutor = sched.threading._Executor

    def wait(self, fs, timeout=None, return_when="ALL_COMPLETED"):
        fs = list(fs)

        def ready():
            done = [f for f in fs if f.done()]
            if return_when == "FIRST_COMPLETED":
                return bool(done) or not fs
            if return_when == "FIRST_EXCEPTION":
                return len(done) == len(fs) or any(
                    (not f.cancelled()) and f.exception(timeout=0) is not None for f in done)
            return len(done) == len(fs)

        self._sched.block_until(ready, fs, timeout)
        done = {f for f in fs if f.done()}
        return self._cf._base.DoneAndNotDoneFutures(done, set(fs) - done)

    def __getattr__(self, name):
        return getattr(self._cf, name)
