"""Schedule drivers on top of core.Scheduler: replay of an explicit schedule, depth-first enumeration
of all schedules up to a preemption bound (stateless: every schedule is a fresh execution), and seeded
random walks.

A *system factory* is a callable ``factory(sched) -> system``: it builds the objects under test with
``sched.threading`` / ``sched.futures`` (or after ``sched.patch(module)``), creates and starts the
controlled threads, and returns an object with a method ``observe()`` (any value; called after every
step while no controlled thread runs) and optionally ``final_info()`` / ``close()``.
"""
from .core import Scheduler


class RunResult:
    __slots__ = ("schedule", "obs0", "obs", "enabled0", "enabled", "outcome", "error", "preemptions",
                 "system_info")

    def __init__(self):
        self.schedule = []      # tids stepped
        self.obs0 = None        # observation before the first step
        self.obs = []           # observation after step i
        self.enabled0 = []
        self.enabled = []       # enabled tids after step i
        self.outcome = None     # complete | deadlock | open | not-enabled | limit
        self.error = None
        self.preemptions = 0
        self.system_info = None

    def as_json(self):
        return {"schedule": self.schedule, "outcome": self.outcome, "error": self.error}


class _Driver:
    """Called at every yield point; records the observation of the step just finished and chooses the
    next thread with `choose(position, enabled, last) -> tid | None`."""

    def __init__(self, system, res, choose, max_steps):
        self.system, self.res, self.choose, self.max_steps = system, res, choose, max_steps
        self.pos = 0
        self.last = None
        self.first = True

    def __call__(self, sched):
        res = self.res
        en = sched.enabled()
        if self.first:
            self.first = False
            res.obs0 = self.system.observe()
            res.enabled0 = en
        else:
            res.obs.append(self.system.observe())
            res.enabled.append(en)
        if not en:
            return None
        if self.pos >= self.max_steps:
            res.outcome = "limit"
            return None
        t = self.choose(self.pos, en, self.last)
        if t is None:
            return None
        if t not in en:
            res.outcome = "not-enabled"
            res.error = "thread %d scheduled at position %d is not enabled (enabled: %s)" % (t, self.pos, en)
            return None
        if self.last is not None and self.last in en and t != self.last:
            res.preemptions += 1
        res.schedule.append(t)
        self.last = t
        self.pos += 1
        return t


def _finish(sched, system, res):
    if res.outcome is None:
        if sched.enabled():
            res.outcome = "open"
        else:
            res.outcome = "deadlock" if sched.live() else "complete"
    info = getattr(system, "final_info", None)
    if info is not None:
        res.system_info = info()
    close = getattr(system, "close", None)
    if close is not None:
        close()


def run_schedule(factory, schedule, extend=None, max_steps=100000, yield_on_release=False):
    """Execute `schedule` (list of tids) on a fresh system.  If a scheduled thread is not enabled the
    run stops with outcome 'not-enabled'.  When the schedule is exhausted, `extend(enabled, last)` (if
    given) keeps choosing until nothing is enabled."""
    res = RunResult()
    n = len(schedule)

    def choose(pos, en, last):
        if pos < n:
            return schedule[pos]
        if extend is not None:
            return extend(en, last)
        return None

    with Scheduler(yield_on_release=yield_on_release) as sched:
        system = factory(sched)
        sched.run_driver(_Driver(system, res, choose, max_steps))
        _finish(sched, system, res)
    return res


class _Frame:
    __slots__ = ("order", "idx", "pre", "cont")

    def __init__(self, order, pre, cont):
        self.order = order      # candidate tids; order[0] is the non-preempting default
        self.idx = 0
        self.pre = pre          # preemptions used before this choice
        self.cont = cont        # True iff order[0] continues the previously running thread


def explore_dfs(factory, bound, max_runs=None, max_steps=100000, yield_on_release=False):
    """Yield a RunResult for every maximal schedule with at most `bound` preemptions (a preemption =
    switching away from a thread that is still enabled).  Exhaustive up to the bound unless `max_runs`
    cuts the enumeration short (compare the number of results with max_runs)."""
    stack = []
    runs = 0
    while True:
        res = RunResult()

        def choose(pos, en, last):
            if pos < len(stack):
                fr = stack[pos]
                if sorted(fr.order) != en:
                    raise RuntimeError("non-deterministic replay at depth %d: %s vs %s"
                                       % (pos, sorted(fr.order), en))
            else:
                cont = last is not None and last in en
                order = ([last] if cont else []) + [t for t in en if not (cont and t == last)]
                pre = 0
                if stack:
                    prev = stack[-1]
                    pre = prev.pre + (1 if (prev.cont and prev.idx > 0) else 0)
                fr = _Frame(order, pre, cont)
                stack.append(fr)
            return fr.order[fr.idx]

        with Scheduler(yield_on_release=yield_on_release) as sched:
            system = factory(sched)
            sched.run_driver(_Driver(system, res, choose, max_steps))
            _finish(sched, system, res)
        del stack[len(res.schedule):]
        yield res
        runs += 1
        if max_runs is not None and runs >= max_runs:
            return
        while stack:
            fr = stack[-1]
            fr.idx += 1
            cost = 1 if fr.cont else 0
            if fr.idx < len(fr.order) and fr.pre + cost <= bound:
                break
            stack.pop()
        if not stack:
            return


def random_walks(factory, rng, n, sticky=0.0, max_steps=100000, yield_on_release=False):
    """n maximal schedules; every choice uniform among the enabled threads, except that with
    probability `sticky` the running thread continues when it can."""
    for _ in range(n):
        def extend(en, last, rng=rng):
            if last is not None and last in en and sticky and rng.random() < sticky:
                return last
            return en[rng.randrange(len(en))]
        yield run_schedule(factory, [], extend=extend, max_steps=max_steps, yield_on_release=yield_on_release)
