"""Controlled scheduler for real Python threads (see core.py and design_notes/C05.md)."""
from .core import Scheduler, SchedAbort, SchedError  # noqa: F401
from .explore import RunResult, run_schedule, explore_dfs, random_walks  # noqa: F401
