"""Abstraction of injector logs and of real data directories to the vocabulary of coq/Model/FsProtocol.v.

Abstract operations (per data key):   ("mktemp",) ("rmtemp",) ("rmfinal",) ("wtmp", i, v) ("rename", i)
                                      ("meta", ended, exc, ((chunk_i, n), ...)) ("rendir",) ("upexc",) ("other", text)
Outcome: "done" | "none" | "trunc" | "full"   (Failed ENone / ETrunc / EFull)
Payload ids v are the first 24 bits of the sha1 of the bytes handed to write().
"""
import hashlib
import json
import os
import re

OUTCOME_CODE = {"done": 0, "none": 1, "trunc": 2, "full": 3}

# concrete sub-operation x fault action -> effect left behind (see harness/fsfault/__init__.py)
ATOMIC_EFF = {"raise": "none", "exit_before": "none", "raise_after": "full", "exit_after": "full"}
WRITE_EFF = {
    # (sub-op, action): effect on the file being written
    ("open_w", "raise"): "none", ("open_w", "exit_before"): "none",
    ("open_w", "raise_after"): "trunc", ("open_w", "exit_after"): "trunc",      # created / truncated, nothing written
    ("write", "raise"): "trunc", ("write", "exit_before"): "trunc",
    ("write", "raise_mid"): "trunc", ("write", "exit_mid"): "trunc",
    ("write", "raise_after"): "full",                                           # `with` closes (flushes) the file
    ("write", "exit_after"): "trunc",                                           # python's buffer dies with the process
    ("close", "raise"): "trunc", ("close", "raise_mid"): "trunc",               # injector: closed, cut to half
    ("close", "exit_before"): "trunc", ("close", "raise_after"): "full", ("close", "exit_after"): "full",
}


def vid(sha):
    return int(sha[:6], 16)


def sha_of_bytes(b):
    return hashlib.sha1(b).hexdigest()[:16]


def key_of_dir(d):
    """'0-recs-abc_temp' -> ('0-recs-abc', True)"""
    if d.endswith("_temp"):
        return d[:-5], True
    return d, False


def parse_fname(key, base):
    """file name inside a data directory -> ('meta',) | ('c', i) | ('t', i) | ('x', base)"""
    prefix = key.split("-", 1)[1] if "-" in key else key
    if base == prefix + "-metadata.json":
        return ("meta",)
    m = re.fullmatch(re.escape(prefix) + r"-(\d{6})(_temp)?", base)
    if m:
        return ("t" if m.group(2) else "c", int(m.group(1)))
    return ("x", base)


def parse_meta_text(text):
    """json text -> ('meta', ended, exc, chunks) or None if unreadable"""
    try:
        md = json.loads(text)
        chunks = tuple((int(c["chunk_i"]), int(c["n"])) for c in md["chunks"])
        return (1 if "writing_ended" in md else 0, 1 if "exception" in md else 0, chunks)
    except Exception:
        return None


def abstract_events(events, failure_propagated=True, crash_markers=True):
    """Concrete injector events (in log order) -> {key: [(op, outcome, info)]} and the list of keys in order
    of first appearance.  `info` = {"k": concrete index, "thread":..., "worker": bool, "sid": ...} of the
    concrete event that completed (or failed) the abstract operation."""
    per_key = {}
    order = []
    open_tx = {}  # rel path -> dict(payload=..., key=..., fn=...)

    def emit(key, op, outcome, ev, slot=None):
        if key not in per_key:
            per_key[key] = []
            order.append(key)
        entry = [op, outcome, {"k": ev.get("k"), "thread": ev.get("thread"),
                               "worker": bool(ev.get("in_save_file")) and str(ev.get("thread", "")).startswith("ThreadPoolExecutor"),
                               "sid": ev.get("sid"), "fault": ev.get("fault"), "inflight": ev.get("inflight")}]
        if slot is not None:
            # a write that was open while its directory was renamed: its effect on the directory (the file
            # exists, with whatever content it ends up with -- the descriptor stays valid across the rename)
            # belongs *before* the rename
            slot[:] = entry
        else:
            per_key[key].append(entry)
        # an injected OSError in one saver kills the whole processing: the savers of the other data keys are
        # told so (kill_spies / MailboxKilled) -- for their automata that is "processing failed upstream"
        if failure_propagated and str(ev.get("fault") or "").startswith("raise"):
            for other in order:
                if other != key:
                    per_key[other].append((("upexc",), "done", {"k": ev.get("k"), "thread": ev.get("thread"), "worker": False,
                                                                "sid": None, "fault": None, "derived": True}))

    for ev in events:
        kind = ev["kind"]
        if kind == "upexc":
            # "processing failed upstream" is inserted only where it is certain that every open saver is told so
            # right away (single-thread processor: kill_spies).  With the threaded processor a saver may have
            # consumed its whole source already and close normally -- its data is complete -- while another
            # thread's failure is still being propagated: whether it records `exception` depends on timing
            if not crash_markers:
                continue
            for key in list(order):
                emit(key, ("upexc",), "done", ev)
            # keys whose saver has not issued any operation yet cannot be told apart here
            continue
        rel = ev.get("rel", "")
        parts = rel.split(os.sep) if rel else []
        if not parts:
            continue  # the root itself (makedirs of the parent directory): not an operation of any key
        key, is_temp = key_of_dir(parts[0])
        fault = ev.get("fault")
        res = ev.get("res", "ok")
        if res.startswith("oserror"):
            fault_eff = "none"
        else:
            fault_eff = None
        if len(parts) == 1:
            # directory-level operation
            if kind == "makedirs" and is_temp:
                op = ("mktemp",)
            elif kind == "rmtree":
                op = ("rmtemp",) if is_temp else ("rmfinal",)
            elif kind == "rename" and is_temp and ev.get("rel2") == key:
                op = ("rendir",)
            else:
                op = ("other", "%s %s" % (kind, rel))
            if fault:
                if fault in ("raise_mid", "exit_mid"):
                    outcome = "partial"   # non-atomic rmtree: outside the basic model
                else:
                    outcome = ATOMIC_EFF[fault]
            else:
                outcome = fault_eff or "done"
            if op == ("rendir",) and outcome in ("done", "full"):
                for rel_tx, tx in open_tx.items():
                    if rel_tx.split(os.sep)[0] == parts[0] and "slot" not in tx:
                        tx["slot"] = [None, None, None]
                        per_key.setdefault(key, []).append(tx["slot"])
            emit(key, op, outcome, ev)
            continue
        base = parts[-1]
        fn = parse_fname(key, base)
        if len(parts) != 2 or not is_temp:
            emit(key, ("other", "%s %s" % (kind, rel)), ATOMIC_EFF.get(fault, "done") if fault else (fault_eff or "done"), ev)
            continue
        if kind in ("open_w", "write", "close"):
            tx = open_tx.get(rel)
            if kind == "open_w":
                tx = open_tx[rel] = {"payload": None}
            if tx is None:
                # close() of a file whose write already failed (the `with` block leaving): not an operation
                continue
            if kind == "write":
                tx["payload"] = ev.get("payload")

            def mkop():
                p = tx.get("payload")
                if fn[0] == "meta":
                    m = parse_meta_text(p["text"]) if p and "text" in p else None
                    return ("meta",) + (m if m is not None else (0, 0, ()))
                if fn[0] == "t":
                    return ("wtmp", fn[1], vid(p["sha"]) if p and "sha" in p else 0)
                return ("other", "write %s" % rel)

            if fault or fault_eff:
                eff = WRITE_EFF[(kind, fault)] if fault else "none"
                emit(key, mkop(), eff, ev, slot=tx.get("slot"))
                del open_tx[rel]
            elif kind == "close":
                emit(key, mkop(), "done", ev, slot=tx.get("slot"))
                del open_tx[rel]
            continue
        if kind == "rename":
            rel2 = ev.get("rel2") or ""
            if fn[0] == "t" and rel2 == os.path.join(parts[0], base[:-5]):
                op = ("rename", fn[1])
            else:
                op = ("other", "rename %s -> %s" % (rel, rel2))
            emit(key, op, ATOMIC_EFF[fault] if fault else (fault_eff or "done"), ev)
            continue
        emit(key, ("other", "%s %s" % (kind, rel)), ATOMIC_EFF.get(fault, "done") if fault else (fault_eff or "done"), ev)
    # writes that were in flight (opened, not closed) when the log ends: the process died while another thread
    # was in the middle of them -- the file exists with a prefix of its content
    for rel, tx in open_tx.items():
        parts = rel.split(os.sep)
        key, is_temp = key_of_dir(parts[0])
        fn = parse_fname(key, parts[-1])
        p = tx.get("payload")
        if fn[0] == "meta":
            m = parse_meta_text(p["text"]) if p and "text" in p else None
            op = ("meta",) + (m if m is not None else (0, 0, ()))
        elif fn[0] == "t":
            op = ("wtmp", fn[1], vid(p["sha"]) if p and "sha" in p else 0)
        else:
            op = ("other", "write %s" % rel)
        emit(key, op, "trunc", {"k": None, "thread": "?", "sid": None, "inflight": True}, slot=tx.get("slot"))
    per_key = {k: [tuple(e) for e in v if e[0] is not None] for k, v in per_key.items()}
    return per_key, order


# ---------------------------------------------------------------------------------------------
# real directories -> abstract file system
# ---------------------------------------------------------------------------------------------

def abstract_dir(path, key, known_shas):
    """None if the directory does not exist, else sorted list of (fname, content):
    content = ('chunk', v, complete) | ('meta', None | (ended, exc, chunks)) | ('x',)"""
    if not os.path.isdir(path):
        return None
    out = []
    for base in sorted(os.listdir(path)):
        fn = parse_fname(key, base)
        p = os.path.join(path, base)
        try:
            with open(p, "rb") as f:
                b = f.read()
        except OSError:
            b = b""
        if fn[0] == "meta":
            out.append((fn, ("meta", parse_meta_text(b.decode("utf-8", "replace")))))
        elif fn[0] in ("c", "t"):
            sha = sha_of_bytes(b)
            out.append((fn, ("chunk", vid(sha), 1 if sha in known_shas else 0)))
        else:
            out.append((fn, ("x",)))
    return out


def abstract_fs(root, key, known_shas):
    return {"temp": abstract_dir(os.path.join(root, key + "_temp"), key, known_shas),
            "final": abstract_dir(os.path.join(root, key), key, known_shas)}


def s_meta(m):
    return "E%dX%d[%s]" % (m[0], m[1], ",".join("%d:%d" % (i, n) for i, n in m[2]))


def s_dir(d):
    if d is None:
        return "-"
    items = []
    for fn, c in d:
        if c[0] == "meta":
            cs = "broken" if c[1] is None else s_meta(c[1])
        elif c[0] == "chunk":
            cs = "%d%s" % (c[1], "+" if c[2] else "-")
        else:
            cs = "x"
        name = "meta" if fn[0] == "meta" else ("%s%d" % (fn[0], fn[1]) if fn[0] in ("c", "t") else "x:" + str(fn[1]))
        items.append("%s=%s" % (name, cs))
    return "{" + ";".join(sorted(items)) + "}"


def s_fs(afs):
    return "T" + s_dir(afs["temp"]) + "F" + s_dir(afs["final"])


def mask_files(s, names):
    """replace the content of the named files ("meta", "t0", "c1", ...) in a canonical fs string by '*'"""
    for n in names:
        s = re.sub(r"(?<=[{;])%s=[^;}]*" % re.escape(n), n + "=*", s)
    return s


def norm_fs(s):
    """payload ids of truncated files are not compared"""
    return re.sub(r"=\d+-", "=?-", s)


# ---------------------------------------------------------------------------------------------
# line-protocol encoders (driver/c04_main.ml)
# ---------------------------------------------------------------------------------------------

def enc_pairs(ps):
    return [len(ps)] + [x for p in ps for x in p]


def enc_meta(m):
    return [m[0], m[1]] + enc_pairs(list(m[2]))


def enc_op(op):
    t = op[0]
    if t == "mktemp":
        return [0]
    if t == "rmtemp":
        return [1]
    if t == "rmfinal":
        return [2]
    if t == "wtmp":
        return [3, op[1], op[2]]
    if t == "rename":
        return [4, op[1]]
    if t == "meta":
        return [5] + enc_meta(op[1:4])
    if t == "rendir":
        return [6]
    if t == "upexc":
        return [7]
    return [8]


def enc_events(evs):
    out = [len(evs)]
    for op, oc, _ in evs:
        out += enc_op(op) + [OUTCOME_CODE[oc]]
    return out


def enc_dir(d):
    if d is None:
        return [0]
    out = [1, len(d)]
    for fn, c in d:
        if fn[0] == "meta":
            out += [0]
        elif fn[0] == "c":
            out += [1, fn[1]]
        elif fn[0] == "t":
            out += [2, fn[1]]
        else:
            raise ValueError("unknown file %r cannot be encoded" % (fn,))
        if c[0] == "chunk":
            out += [0, c[1], c[2]]
        elif c[1] is None:
            out += [1]
        else:
            out += [2] + enc_meta(c[1])
    return out


def enc_fs(afs):
    return enc_dir(afs["temp"]) + enc_dir(afs["final"])


def s_op(op, oc="done"):
    t = op[0]
    suffix = "" if oc == "done" else "!" + oc
    if t == "wtmp":
        return "wtmp(%d,%d)%s" % (op[1], op[2], suffix)
    if t == "rename":
        return "rename(%d)%s" % (op[1], suffix)
    if t == "meta":
        return "meta(%s)%s" % (s_meta(op[1:4]), suffix)
    return t + suffix


def s_events(evs):
    return ",".join(s_op(op, oc) for op, oc, _ in evs)
