"""Run `Context.make` of a small plugin graph under the fault injector, one forked child per run, and
observe the result with a fresh, read-only Context (is_stored / get_array against the in-memory oracle)."""
import contextlib
import json
import logging
import os
import shutil
import signal
import sys
import tempfile
import threading
import time

import numpy as np

from harness.fsfault import FsFault, read_log, EXIT_CODE
from harness.fsfault import abstract as ab
from harness.fsfault import graphs

RUN_ID = "0"


def cfg_kw(cfg):
    return dict(rechunk=bool(cfg.get("rechunk")), n_chunks=int(cfg.get("n_chunks", 3)),
                per_chunk=int(cfg.get("per_chunk", 2)),
                crash_at=tuple(cfg["crash_at"]) if cfg.get("crash_at") else None,
                empty_chunk=cfg.get("empty_chunk"))


def quiet():
    logging.disable(logging.CRITICAL)
    devnull = os.open(os.devnull, os.O_WRONLY)
    os.dup2(devnull, 1)
    os.dup2(devnull, 2)


def _child(root, cfg, plan, log_path, target, delays=None, after=None):
    """Body of the forked child: never returns."""
    code = 3
    try:
        quiet()
        inj = FsFault(root, log_path=log_path, plan=plan, delays=delays, after=after)
        inj.install()
        graphs.CRASH_HOOK[0] = lambda: inj.mark("upexc")
        kw = cfg_kw(cfg)
        outcome, exc = "ok", ""
        t_start = time.time()
        try:
            st = graphs.context(root, cfg["graph"], **kw)
            st.make(RUN_ID, target, processor=cfg["proc"], max_workers=cfg.get("workers"))
        except BaseException as e:  # noqa
            outcome, exc = "exc", "%s: %s" % (type(e).__name__, str(e)[:300])
        # let straggling threads finish their file operations (they stay recorded)
        t0 = time.time()
        while threading.active_count() > 1 and time.time() - t0 < 3.0:
            time.sleep(0.01)
        inj.mark("result", outcome=outcome, exc=exc, lingering=threading.active_count() - 1,
                 t_make=round(t0 - t_start, 3), t_wait=round(time.time() - t0, 3),
                 threads=[t.name for t in threading.enumerate()],
                 fired=[list(x) for x in inj.fired])
        code = 0
    except BaseException as e:  # harness problem inside the child
        try:
            with open(log_path + ".err", "w") as f:
                f.write(repr(e))
        except Exception:
            pass
    finally:
        os._exit(code)


_DIRTY = [False]   # a previous in-process run left threads behind: fork from now on


class _Alarm(BaseException):
    pass


def _run_inproc(root, cfg, plan, target, timeout, delays=None, after=None):
    """`make` inside this (pool worker) process: used when the plan does not kill the process."""
    inj = FsFault(root, plan=plan, delays=delays, after=after)
    graphs.CRASH_HOOK[0] = lambda: inj.mark("upexc")
    kw = cfg_kw(cfg)
    outcome, exc = "ok", ""

    def on_alarm(signum, frame):
        raise _Alarm()

    old = signal.signal(signal.SIGALRM, on_alarm)
    signal.alarm(int(timeout))
    n_before = threading.active_count()
    try:
        with inj:
            try:
                st = graphs.context(root, cfg["graph"], **kw)
                st.make(RUN_ID, target, processor=cfg["proc"], max_workers=cfg.get("workers"))
            except _Alarm:
                outcome = "timeout"
            except BaseException as e:  # noqa
                outcome, exc = "exc", "%s: %s" % (type(e).__name__, str(e)[:300])
            t0 = time.time()
            while threading.active_count() > n_before and time.time() - t0 < 5.0:
                time.sleep(0.005)
    finally:
        signal.alarm(0)
        signal.signal(signal.SIGALRM, old)
        graphs.CRASH_HOOK[0] = None
    lingering = threading.active_count() - n_before
    if lingering > 0 or outcome == "timeout":
        _DIRTY[0] = True
    return {"outcome": outcome, "exc": exc, "fired": [list(x) for x in inj.fired], "lingering": lingering,
            "events": [e for e in inj.events], "inproc": True}


def run_make(root, cfg, plan, scratch, target=None, timeout=1500, delays=None, after=None):
    """One `make` under the injector.  plan: {stable_id: action}.  Runs in a forked child when the plan may
    kill the process (or when this process is no longer single-threaded), else in this process.  Returns
    dict(outcome = ok | exc | died | timeout | harness-error, exc, fired, events)."""
    target = target or cfg.get("target") or graphs.target(cfg["graph"])
    needs_fork = any(str(a).startswith("exit") for a in plan.values()) or _DIRTY[0] or os.environ.get("C04_ALWAYS_FORK")
    if not needs_fork:
        return _run_inproc(root, cfg, plan, target, timeout, delays=delays, after=after)
    fd, log_path = tempfile.mkstemp(prefix="log_", suffix=".jsonl", dir=scratch)
    os.close(fd)
    pid = os.fork()
    if pid == 0:
        _child(root, cfg, plan, log_path, target, delays=delays, after=after)
    t0 = time.time()
    status = None
    while True:
        p, st = os.waitpid(pid, os.WNOHANG)
        if p == pid:
            status = st
            break
        if time.time() - t0 > timeout:
            try:
                os.kill(pid, signal.SIGKILL)
            except OSError:
                pass
            os.waitpid(pid, 0)
            break
        time.sleep(0.002)
    events = read_log(log_path)
    res = {"outcome": "timeout" if status is None else None, "exc": "", "fired": [], "lingering": 0}
    marks = [e for e in events if e.get("kind") == "result"]
    events = [e for e in events if e.get("kind") != "result"]
    if status is not None:
        code = os.WEXITSTATUS(status) if os.WIFEXITED(status) else -1
        if code == EXIT_CODE:
            res["outcome"] = "died"
            res["fired"] = [e["sid"] for e in events if e.get("fault")]
        elif code == 0 and marks:
            res["outcome"] = marks[-1]["outcome"]
            res["exc"] = marks[-1]["exc"]
            res["fired"] = marks[-1]["fired"]
            res["lingering"] = marks[-1]["lingering"]
            res["timing"] = (marks[-1].get("t_make"), marks[-1].get("t_wait"), marks[-1].get("threads"))
        else:
            err = ""
            if os.path.exists(log_path + ".err"):
                err = open(log_path + ".err").read()
            res["outcome"] = "harness-error"
            res["exc"] = "child exit status %r %s" % (status, err)
    res["events"] = events
    for p in (log_path, log_path + ".err"):
        if os.path.exists(p):
            os.remove(p)
    return res


def payload_shas(events):
    return {e["payload"]["sha"] for e in events if e.get("kind") == "write" and isinstance(e.get("payload"), dict)
            and "sha" in e["payload"]}


def key_dtype(key):
    return key.split("-")[1]


def list_keys(root):
    keys = set()
    if os.path.isdir(root):
        for d in os.listdir(root):
            if os.path.isdir(os.path.join(root, d)) and d.count("-") >= 2:
                keys.add(ab.key_of_dir(d)[0])
    return sorted(keys)


def rows_of(a):
    return [(int(t), int(e), int(i)) for t, e, i in zip(a["time"], a["endtime"], a["id"])]


def observe(root, cfg, oracle_rows):
    """Fresh read-only Context: {dtype: {"stored": True|False|"raised:..", "load": None|"ok"|"mismatch.."|"raised:.."}}"""
    import strax
    kw = cfg_kw(cfg)
    kw["crash_at"] = None
    out = {}
    st = strax.Context(storage=[strax.DataDirectory(root, readonly=True)],
                       register=graphs.plugin_classes(cfg["graph"], **kw), config=dict(),
                       forbid_creation_of="*")
    for d in graphs.data_types(cfg["graph"]):
        rec = {"stored": None, "load": None}
        try:
            rec["stored"] = bool(st.is_stored(RUN_ID, d))
        except BaseException as e:  # noqa
            rec["stored"] = "raised:%s: %s" % (type(e).__name__, str(e)[:200])
        if rec["stored"] is True:
            try:
                a = st.get_array(RUN_ID, d, progress_bar=False, processor="single_thread")
                got = rows_of(a)
                if got == oracle_rows[d]:
                    rec["load"] = "ok"
                else:
                    rec["load"] = "mismatch: %d rows loaded, %d expected; first difference at row %s" % (
                        len(got), len(oracle_rows[d]),
                        next((i for i, (x, y) in enumerate(zip(got, oracle_rows[d])) if x != y), min(len(got), len(oracle_rows[d]))))
            except BaseException as e:  # noqa
                rec["load"] = "raised:%s: %s" % (type(e).__name__, str(e)[:200])
        out[d] = rec
    return out


def oracle_rows(cfg):
    kw = cfg_kw(cfg)
    return {d: rows_of(a) for d, a in graphs.oracle(cfg["graph"], **kw).items()}


def snapshot(root, shas):
    """{key: abstract fs} for every key that has a directory below root"""
    return {k: ab.abstract_fs(root, k, shas) for k in list_keys(root)}


def run_case(case, scratch_root):
    """A case = {"cfg":..., "steps": [ {"plan": [[sid, action], ...]} , ...], "shas": [...]}.
    Runs the steps in order on one directory; after every step observes the directory.
    Returns the list of step records."""
    quiet_logs()
    cfg = case["cfg"]
    root = tempfile.mkdtemp(prefix="case_", dir=scratch_root)
    scratch = tempfile.mkdtemp(prefix="logs_", dir=scratch_root)
    shas = set(case.get("shas", []))
    orc = case.get("oracle") or oracle_rows(cfg)
    recs = []
    try:
        steps = list(case["steps"])
        si = 0
        while si < len(steps):
            step = steps[si]
            si += 1
            plan = {tuple(sid): act for sid, act in step.get("plan", [])}
            scfg = dict(cfg)
            if "crash_at" in step:
                scfg["crash_at"] = step["crash_at"]
            before = snapshot(root, shas)
            delays = {tuple(sid): float(sec) for sid, sec in step.get("delay", [])}
            r = run_make(root, scfg, plan, scratch, target=step.get("target") or case.get("target"), delays=delays,
                         after=[(tuple(a), tuple(b)) for a, b in step.get("after", [])])
            shas |= payload_shas(r["events"])
            per_key, order = ab.abstract_events(r["events"], failure_propagated=(r["outcome"] == "exc" and cfg["proc"] == "single_thread"),
                                                  crash_markers=(cfg["proc"] == "single_thread"))
            after = snapshot(root, shas)
            obs = observe(root, cfg, orc)
            recs.append({"plan": [[list(s), a] for s, a in plan.items()], "crash_at": scfg.get("crash_at"),
                         "outcome": r["outcome"], "exc": r["exc"], "fired": r["fired"], "lingering": r["lingering"],
                         "nevents": len(r["events"]),
                         "aevents": {k: [[list(op), oc, info] for op, oc, info in v] for k, v in per_key.items()},
                         "keys": order, "before": before, "after": after, "obs": obs,
                         "target": step.get("target") or case.get("target") or cfg.get("target") or graphs.target(cfg["graph"]),
                         "extra": bool(step.get("extra")),
                         "root_fault": any(e.get("fault") and e.get("rel", "") == "" for e in r["events"])})
            if si == len(steps) and not step.get("extra") and not plan and not scfg.get("crash_at") and r["outcome"] == "ok":
                # the identical request succeeded; data types it did not (re)store are requested one by one
                for d, o in obs.items():
                    if o["stored"] is False:
                        steps.append({"plan": [], "target": d, "extra": True})
    finally:
        shutil.rmtree(root, ignore_errors=True)
        shutil.rmtree(scratch, ignore_errors=True)
    return recs


def quiet_logs():
    logging.disable(logging.CRITICAL)


_WARM = [False]


def warmup(scratch_root):
    """Run every code path once in this process so that forked children inherit the compiled numba kernels
    (a child that has to compile them needs seconds instead of milliseconds)."""
    if _WARM[0]:
        return
    import tqdm
    tqdm.tqdm.monitor_interval = 0
    quiet_logs()
    with open(os.devnull, "w") as devnull, contextlib.redirect_stdout(devnull), contextlib.redirect_stderr(devnull):
        for proc, workers in (("single_thread", None), ("threaded_mailbox", 2)):
            for rechunk in (False, True):
                cfg = dict(graph="g3", proc=proc, workers=workers, rechunk=rechunk, empty_chunk=1)
                root = tempfile.mkdtemp(prefix="warm_", dir=scratch_root)
                try:
                    st = graphs.context(root, "g3", **cfg_kw(cfg))
                    st.make(RUN_ID, "kinds", processor=proc, max_workers=workers)
                    observe(root, cfg, oracle_rows(cfg))
                finally:
                    shutil.rmtree(root, ignore_errors=True)
    _WARM[0] = True


def clean_trace(cfg, scratch_root):
    """A fault-free run on an empty directory: concrete events, stable ids, expected chunk specs per key."""
    root = tempfile.mkdtemp(prefix="clean_", dir=scratch_root)
    scratch = tempfile.mkdtemp(prefix="logs_", dir=scratch_root)
    try:
        r = run_make(root, cfg, {}, scratch)
        shas = payload_shas(r["events"])
        per_key, order = ab.abstract_events(r["events"], failure_propagated=(r["outcome"] == "exc" and cfg["proc"] == "single_thread"),
                                                  crash_markers=(cfg["proc"] == "single_thread"))
        after = snapshot(root, shas)
        orc = oracle_rows(cfg)
        obs = observe(root, cfg, orc)
        expected = {}
        for k in order:
            fin = after.get(k, {}).get("final")
            v_of = {op[1]: op[2] for op, oc, _ in per_key[k] if op[0] == "wtmp" and oc == "done"}
            meta = None
            if fin:
                for fn, c in fin:
                    if fn[0] == "meta" and c[1] is not None:
                        meta = c[1]
            expected[k] = [[i, n, v_of.get(i, 0)] for i, n in (meta[2] if meta else [])]
        return {"outcome": r["outcome"], "exc": r["exc"], "events": r["events"], "shas": sorted(shas),
                "aevents": {k: [[list(op), oc, info] for op, oc, info in v] for k, v in per_key.items()},
                "keys": order, "after": after, "obs": obs, "expected": expected, "oracle": orc}
    finally:
        shutil.rmtree(root, ignore_errors=True)
        shutil.rmtree(scratch, ignore_errors=True)
