"""Demonstration (C04): with processor='threaded_mailbox', a failure inside Saver.close -- the last metadata flush or
the final os.rename(<key>_temp, <key>) -- happens in save_from's `finally` on the saver's mailbox thread; the thread
dies with the exception, `got_exception` is not set, and Context.make returns normally although nothing was stored.

    PYTHONPATH=/repo:/verif /venv/bin/python -m harness.fsfault.demo_close [single_thread|threaded_mailbox]

No strax source is edited (fault injected by harness/fsfault).  Exit status 1 if the failed save was reported to the
caller as a success, 0 if Context.make raised.
"""
import logging
import os
import shutil
import sys
import tempfile

from harness.fsfault import FsFault, RAISE
from harness.fsfault import graphs


def main():
    proc = sys.argv[1] if len(sys.argv) > 1 else "threaded_mailbox"
    logging.disable(logging.CRITICAL)
    root = tempfile.mkdtemp(prefix="c04_close_")
    kw = dict(rechunk=False)
    try:
        with FsFault(root) as inj:
            graphs.context(root, "g1", **kw).make("0", "recs", processor=proc)
        target = [tuple(e["sid"]) for e in inj.events if e["kind"] == "rename" and e["sid"][2] == ""][0]
        shutil.rmtree(root)
        os.makedirs(root)
        outcome = "returned normally"
        with FsFault(root, plan={target: RAISE}) as inj:
            try:
                graphs.context(root, "g1", **kw).make("0", "recs", processor=proc)
            except BaseException as e:  # noqa
                outcome = "raised %s: %s" % (type(e).__name__, str(e)[:80])
        print("processor:", proc)
        print("injected OSError at the final directory rename", target, "fired:", bool(inj.fired))
        print("Context.make", outcome)
        stored = graphs.context(root, "g1", **kw).is_stored("0", "recs")
        print("is_stored:", stored, " directories:", sorted(os.listdir(root)))
        lost = outcome == "returned normally"
        print("VERDICT:", "the failed save was reported as a SUCCESS" if lost else "the failure reached the caller")
        return 1 if lost else 0
    finally:
        shutil.rmtree(root, ignore_errors=True)


if __name__ == "__main__":
    sys.exit(main())
