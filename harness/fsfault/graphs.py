"""Small plugin graphs for the file-operation fault checks, with an in-memory oracle.

Graphs (names -> classes):
  g1 : recs                                   (one source plugin)
  g2 : recs -> sums                           (two plugins)
  g3 : recs -> sums -> (kinds, lone)            (three plugins, the last one multi-output)
Rows carry an `id` column so that "equals the correct result" is a row-by-row comparison.  Consecutive
rows are 2000 ns apart (> DEFAULT_CHUNK_SPLIT_NS), so that a saver that rechunks to a tiny target
size really emits several chunks.
"""
import numpy as np
from immutabledict import immutabledict

import strax

ROW_DT = [(("Start time", "time"), np.int64), (("End time", "endtime"), np.int64), (("row id", "id"), np.int64)]
GAP = 2000


class InjectedPluginError(Exception):
    pass


# called just before an injected plugin failure is raised (the runner logs an 'upexc' marker)
CRASH_HOOK = [None]


def _crash(msg):
    if CRASH_HOOK[0] is not None:
        CRASH_HOOK[0]()
    raise InjectedPluginError(msg)


def _rows(chunk_i, per_chunk):
    r = np.zeros(per_chunk, dtype=ROW_DT)
    base = chunk_i * per_chunk
    r["id"] = base + np.arange(per_chunk)
    r["time"] = (base + np.arange(per_chunk)) * GAP + 10
    r["endtime"] = r["time"] + 5
    return r


def make_plugins(rechunk, n_chunks=3, per_chunk=2, tiny_target=True, crash_at=None, empty_chunk=None):
    """Return the plugin classes of the three-plugin chain.  `rechunk`: rechunk_on_save for all.
    crash_at = (data_type, chunk_i): that plugin raises when computing that chunk.
    empty_chunk: index of a source chunk without rows (saved without a file)."""
    # target of about 1.5 rows: every saved chunk holds 1-2 rows when rechunking
    target_mb = (1.5 * np.dtype(ROW_DT).itemsize) / 1e6 if tiny_target else strax.DEFAULT_CHUNK_SIZE_MB
    crash = crash_at or (None, None)

    class Recs(strax.Plugin):
        provides = "recs"
        data_kind = "recs"
        depends_on = tuple()
        dtype = ROW_DT
        rechunk_on_save = rechunk
        chunk_target_size_mb = target_mb
        parallel = False
        __version__ = "0.0.1"

        def source_finished(self):
            return True

        def is_ready(self, chunk_i):
            return chunk_i < n_chunks

        def compute(self, chunk_i):
            if crash == ("recs", chunk_i):
                _crash("injected failure in recs chunk %d" % chunk_i)
            r = _rows(chunk_i, 0 if empty_chunk == chunk_i else per_chunk)
            t0 = chunk_i * per_chunk * GAP
            return self.chunk(start=t0, end=t0 + per_chunk * GAP, data=r)

    class Sums(strax.Plugin):
        provides = "sums"
        data_kind = "sums"
        depends_on = ("recs",)
        dtype = ROW_DT
        rechunk_on_save = rechunk
        chunk_target_size_mb = target_mb
        parallel = False
        __version__ = "0.0.1"
        _n = 0

        def compute(self, recs):
            i = self._n
            self._n += 1
            if crash == ("sums", i):
                _crash("injected failure in sums chunk %d" % i)
            out = np.zeros(len(recs), dtype=ROW_DT)
            out["time"] = recs["time"]
            out["endtime"] = recs["endtime"]
            out["id"] = recs["id"] * 10 + 1
            return out

    class Cls(strax.Plugin):
        provides = ("kinds", "lone")
        data_kind = immutabledict(kinds="sums", lone="lone")
        depends_on = ("sums",)
        rechunk_on_save = rechunk
        chunk_target_size_mb = target_mb
        save_when = immutabledict(kinds=strax.SaveWhen.ALWAYS, lone=strax.SaveWhen.ALWAYS)
        parallel = False
        __version__ = "0.0.1"
        _n = 0

        def infer_dtype(self):
            return dict(kinds=ROW_DT, lone=ROW_DT)

        def compute(self, sums):
            i = self._n
            self._n += 1
            if crash == ("kinds", i):
                _crash("injected failure in kinds chunk %d" % i)
            a = np.zeros(len(sums), dtype=ROW_DT)
            a["time"] = sums["time"]
            a["endtime"] = sums["endtime"]
            a["id"] = sums["id"] * 10 + 2
            # (chunking-independent: the selection looks at the row, not at its position in the chunk)
            b = a[(sums["id"] // 10) % 2 == 0].copy()
            b["id"] = b["id"] + 1
            return dict(kinds=a, lone=b)

    return Recs, Sums, Cls


GRAPHS = {
    "g1": (("recs",), "recs"),
    "g2": (("recs", "sums"), "sums"),
    "g3": (("recs", "sums", "kinds", "lone"), "kinds"),
}


def plugin_classes(graph, **kw):
    recs, sums, cls = make_plugins(**kw)
    return {"g1": [recs], "g2": [recs, sums], "g3": [recs, sums, cls]}[graph]


def context(path, graph, **kw):
    """A fresh Context on directory `path` (None: no storage at all)."""
    storage = [strax.DataDirectory(path)] if path is not None else []
    st = strax.Context(storage=storage, register=plugin_classes(graph, **kw),
                       config=dict(), allow_lazy=True, timeout=600, saver_timeout=600)
    return st


def data_types(graph):
    return GRAPHS[graph][0]


def target(graph):
    return GRAPHS[graph][1]


def oracle(graph, **kw):
    """{data_type: array} computed in memory, without any storage and without the injector."""
    kw = dict(kw)
    kw.pop("crash_at", None)
    out = {}
    for d in data_types(graph):
        st = context(None, graph, **kw)
        out[d] = st.get_array("0", d, processor="single_thread", progress_bar=False)
    return out
