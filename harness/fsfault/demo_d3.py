"""Demonstration of D3 (C04): an OSError inside one pooled chunk write is swallowed by Saver.save_from.

    PYTHONPATH=/repo:/verif /venv/bin/python -m harness.fsfault.demo_d3            # the tree in /repo
    PYTHONPATH=/tmp/patched:/verif /venv/bin/python -m harness.fsfault.demo_d3     # a patched tree

No strax source is edited: the failure is injected by replacing `os` / `open` as seen from strax.io
(harness/fsfault).  Exit status 1 if the failure was swallowed (make returned normally, the data is reported
as stored but cannot be loaded), 0 if it reached the caller and the data is reported unavailable.
"""
import logging
import os
import shutil
import sys
import tempfile

import strax

from harness.fsfault import FsFault, RAISE
from harness.fsfault import graphs


def main():
    logging.disable(logging.CRITICAL)
    root = tempfile.mkdtemp(prefix="c04_d3_")
    kw = dict(rechunk=False)
    try:
        # 1. a clean run records the operation points; take the write of the second chunk file,
        #    which runs on a worker thread of the saving thread pool
        with FsFault(root) as inj:
            st = graphs.context(root, "g1", **kw)
            st.make("0", "recs", processor="threaded_mailbox", max_workers=2)
        writes = [tuple(e["sid"]) for e in inj.events if e["kind"] == "write" and e["in_save_file"]]
        target = writes[1]
        shutil.rmtree(root)
        os.makedirs(root)
        # 2. the same request with an OSError raised by that write
        outcome = "returned normally"
        with FsFault(root, plan={target: RAISE}) as inj:
            st = graphs.context(root, "g1", **kw)
            try:
                st.make("0", "recs", processor="threaded_mailbox", max_workers=2)
            except BaseException as e:  # noqa
                outcome = "raised %s: %s" % (type(e).__name__, str(e)[:80])
        print("injected OSError at", target, "fired:", bool(inj.fired))
        print("Context.make", outcome)
        # 3. what a fresh context sees
        st = graphs.context(root, "g1", **kw)
        stored = st.is_stored("0", "recs")
        print("is_stored:", stored)
        load = "not attempted"
        if stored:
            try:
                a = st.get_array("0", "recs", progress_bar=False)
                load = "loaded %d rows" % len(a)
            except BaseException as e:  # noqa
                load = "FAILED with %s: %s" % (type(e).__name__, str(e)[:80])
        print("loading:", load)
        swallowed = outcome == "returned normally" or (stored and load.startswith("FAILED"))
        print("VERDICT:", "failure SWALLOWED (D3)" if swallowed else "failure reached the caller; data reported unavailable")
        return 1 if swallowed else 0
    finally:
        shutil.rmtree(root, ignore_errors=True)


if __name__ == "__main__":
    sys.exit(main())
