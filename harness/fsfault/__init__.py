"""File-operation fault injector (DESIGN.md section 4.4; used by C04, usable by C03 / C16).

No source edits in /repo: the injector replaces module attributes of `strax.storage.files` and
`strax.io` (their `os`, `shutil`, `open`) by thin proxies, so that every

    os.makedirs   os.rename   os.remove   shutil.rmtree   shutil.move
    open(path, "w"/"wb"/"a"...)  .write(...)  .close()       strax.io.save_file (enter/leave marks)

issued by strax on a path below the watched root becomes a numbered *operation point*.  At every
operation point the injector (1) appends one JSON line to a log (unbuffered `os.write`, so the log
survives `os._exit`), (2) consults the fault plan and, if the plan names this point, raises `OSError`
(before the operation, in the middle of a write, or after the operation was carried out) or kills
the process with `os._exit` (before / in the middle / after).

Operation points are addressed by a *stable id* that does not depend on thread interleavings:
    (directory, kind, basename, occurrence)         e.g. ("0-recs-abc_temp", "write", "recs-abc-000001_temp", 0)
where `directory` is the first path component below the root ("" for the root itself) and
`occurrence` counts earlier points with the same (directory, kind, basename).
"""
import builtins
import errno
import json
import os
import shutil
import threading
import time

EXIT_CODE = 77

KINDS = ("makedirs", "rename", "remove", "rmtree", "move", "open_w", "write", "close")
# fault actions
RAISE = "raise"              # raise OSError instead of performing the operation
RAISE_MID = "raise_mid"      # write: half of the bytes reach the disk, then OSError; rmtree: see below
RAISE_AFTER = "raise_after"  # perform the operation, then raise OSError
EXIT_BEFORE = "exit_before"  # os._exit just before the operation
EXIT_MID = "exit_mid"        # write: half of the bytes reach the disk, then os._exit
EXIT_AFTER = "exit_after"    # perform the operation, then os._exit
ACTIONS = (RAISE, RAISE_MID, RAISE_AFTER, EXIT_BEFORE, EXIT_MID, EXIT_AFTER)


class InjectedOSError(OSError):
    pass


def _injected(what):
    return InjectedOSError(errno.EIO, "fsfault: injected I/O error at " + what)


class _Proxy:
    """Module proxy: attribute lookups fall through to the wrapped module."""

    def __init__(self, real, overrides):
        object.__setattr__(self, "_real", real)
        object.__setattr__(self, "_over", overrides)

    def __getattr__(self, name):
        over = object.__getattribute__(self, "_over")
        if name in over:
            return over[name]
        return getattr(object.__getattribute__(self, "_real"), name)


class _WFile:
    """Write-mode file object whose write/close are operation points."""

    def __init__(self, inj, f, path):
        self._inj = inj
        self._f = f
        self._path = path
        self._closed = False

    def write(self, data):
        inj = self._inj

        def do():
            return self._f.write(data)

        def mid():
            half = data[: len(data) // 2]
            self._f.write(half)
            self._f.flush()

        return inj._point("write", self._path, do, mid=mid, extra={"nbytes": len(data)}, payload=data)

    def close(self):
        if self._closed:
            return None
        self._closed = True

        def do():
            return self._f.close()

        def fail():
            # a failing close(): the buffer was flushed only partially -- really close, then cut the
            # file back to half of its size
            self._f.close()
            try:
                os.truncate(self._path, os.path.getsize(self._path) // 2)
            except OSError:
                pass

        return self._inj._point("close", self._path, do, fail=fail)

    def flush(self):
        return self._f.flush()

    def __enter__(self):
        return self

    def __exit__(self, *a):
        self.close()
        return False

    def __getattr__(self, name):
        return getattr(self._f, name)


class FsFault:
    def __init__(self, root, log_path=None, plan=None, hold=None, delays=None, after=None):
        """root: watched directory; plan: {stable_id_tuple: action}; log_path: JSON-lines event log."""
        self.root = os.path.realpath(root)
        self.plan = dict(plan or {})
        self.log_path = log_path
        self._fd = None
        self.lock = threading.RLock()
        self.counts = {}
        self.events = []
        self.fired = []
        self.seq = 0
        self._saved = None
        self.tls = threading.local()
        # hold: optional {stable_id: threading.Event} -- the point waits for the event before running
        self.hold = dict(hold or {})
        # delays: optional {stable_id: seconds} -- the point sleeps before it runs (to force an interleaving,
        # e.g. a slow pooled chunk write)
        self.delays = dict(delays or {})
        # after: optional [(then_sid, first_sid)] -- point then_sid does not run before point first_sid has run
        # (it gives up waiting after 5 s, so a run in which first_sid never occurs still terminates)
        self._after_wait = {}
        self._after_set = {}
        for then_sid, first_sid in (after or []):
            ev = threading.Event()
            self._after_wait.setdefault(tuple(then_sid), []).append(ev)
            self._after_set.setdefault(tuple(first_sid), []).append(ev)

    # -- path helpers -------------------------------------------------------------------------
    def _rel(self, path):
        try:
            p = os.path.realpath(os.fspath(path))
        except TypeError:
            return None
        if p == self.root:
            return ""
        if p.startswith(self.root + os.sep):
            return p[len(self.root) + 1:]
        return None

    def _log(self, ev):
        self.events.append(ev)
        if self._fd is not None:
            os.write(self._fd, (json.dumps(ev, default=str) + "\n").encode())

    # -- the operation point ------------------------------------------------------------------
    def _point(self, kind, path, do, mid=None, fail=None, extra=None, payload=None, path2=None):
        rel = self._rel(path)
        if rel is None:
            return do()
        parts = rel.split(os.sep) if rel else []
        d = parts[0] if parts else ""
        base = parts[-1] if len(parts) > 1 else ""
        hold_ev = None
        with self.lock:
            key = (d, kind, base)
            occ = self.counts.get(key, 0)
            self.counts[key] = occ + 1
            sid = (d, kind, base, occ)
            hold_ev = self.hold.get(sid)
            delay = self.delays.get(sid)
        if hold_ev is not None:
            hold_ev.wait(30)
        for w_ev in self._after_wait.get(sid, []):
            w_ev.wait(5)
        if delay:
            time.sleep(delay)
        try:
            return self._point2(kind, path, do, mid, fail, extra, payload, path2, rel, sid)
        finally:
            for s_ev in self._after_set.get(sid, []):
                s_ev.set()

    def _point2(self, kind, path, do, mid, fail, extra, payload, path2, rel, sid):
        with self.lock:
            k = self.seq
            self.seq += 1
            action = self.plan.get(sid)
            ev = {"k": k, "sid": list(sid), "kind": kind, "rel": rel, "thread": threading.current_thread().name,
                  "in_save_file": bool(getattr(self.tls, "in_save_file", 0))}
            if path2 is not None:
                ev["rel2"] = self._rel(path2)
            if extra:
                ev.update(extra)
            if payload is not None:
                ev["payload"] = _payload_repr(payload)
            if action is None:
                try:
                    res = do()
                except BaseException as e:  # a genuine OS error: record it, re-raise
                    ev["res"] = "oserror:" + type(e).__name__
                    self._log(ev)
                    raise
                ev["res"] = "ok"
                self._log(ev)
                return res
            # a planned fault fires here
            ev["fault"] = action
            self.fired.append(sid)
            if action == EXIT_BEFORE:
                ev["res"] = "exit_before"
                self._log(ev)
                os._exit(EXIT_CODE)
            if action == EXIT_MID:
                if mid:
                    mid()
                ev["res"] = "exit_mid"
                self._log(ev)
                os._exit(EXIT_CODE)
            if action == EXIT_AFTER:
                do()
                ev["res"] = "exit_after"
                self._log(ev)
                os._exit(EXIT_CODE)
            if action == RAISE:
                if fail:
                    fail()
                ev["res"] = "raise"
                self._log(ev)
                raise _injected("%s %s" % (kind, rel))
            if action == RAISE_MID:
                if mid:
                    mid()
                elif fail:
                    fail()
                ev["res"] = "raise_mid"
                self._log(ev)
                raise _injected("%s %s (partial)" % (kind, rel))
            if action == RAISE_AFTER:
                do()
                ev["res"] = "raise_after"
                self._log(ev)
                raise _injected("%s %s (after completion)" % (kind, rel))
            raise ValueError("unknown fault action %r" % (action,))

    def mark(self, kind, **extra):
        """Log a marker event that is not a file operation (e.g. 'upexc': a plugin is about to raise)."""
        with self.lock:
            ev = {"k": self.seq, "kind": kind, "thread": threading.current_thread().name, "res": "mark"}
            ev.update(extra)
            self.seq += 1
            self._log(ev)

    # -- wrappers -----------------------------------------------------------------------------
    def _makedirs(self, name, mode=0o777, exist_ok=False):
        return self._point("makedirs", name, lambda: os.makedirs(name, mode, exist_ok=exist_ok),
                           extra={"exist_ok": bool(exist_ok), "existed": os.path.exists(name)})

    def _rename(self, src, dst, **kw):
        return self._point("rename", src, lambda: os.rename(src, dst, **kw), path2=dst)

    def _remove(self, path, **kw):
        return self._point("remove", path, lambda: os.remove(path, **kw))

    def _rmtree(self, path, *a, **kw):
        def mid():
            # partial removal: delete the metadata file(s) first, keep the rest
            for fn in sorted(os.listdir(path)):
                if fn.endswith("metadata.json"):
                    os.remove(os.path.join(path, fn))

        return self._point("rmtree", path, lambda: shutil.rmtree(path, *a, **kw), mid=mid)

    def _move(self, src, dst, *a, **kw):
        return self._point("move", src, lambda: shutil.move(src, dst, *a, **kw), path2=dst)

    def _open(self, file, mode="r", *a, **kw):
        writing = isinstance(mode, str) and any(c in mode for c in "wax+")
        if not writing or not isinstance(file, (str, bytes, os.PathLike)) or self._rel(file) is None:
            return builtins.open(file, mode, *a, **kw)
        f = self._point("open_w", file, lambda: builtins.open(file, mode, *a, **kw), extra={"mode": mode})
        return _WFile(self, f, file)

    def _wrap_save_file(self, real):
        def save_file(f, *a, **kw):
            self.tls.in_save_file = getattr(self.tls, "in_save_file", 0) + 1
            try:
                return real(f, *a, **kw)
            finally:
                self.tls.in_save_file -= 1
        save_file.__wrapped__ = real
        return save_file

    # -- install / uninstall --------------------------------------------------------------------
    def install(self):
        import strax
        import strax.io
        import strax.storage.files as files
        if self.log_path:
            self._fd = os.open(self.log_path, os.O_WRONLY | os.O_CREAT | os.O_APPEND, 0o644)
        os_proxy = _Proxy(os, {"makedirs": self._makedirs, "rename": self._rename, "remove": self._remove})
        sh_proxy = _Proxy(shutil, {"rmtree": self._rmtree, "move": self._move})
        self._saved = {
            "files.os": files.__dict__.get("os"), "files.shutil": files.__dict__.get("shutil"),
            "files.open": files.__dict__.get("open", None), "io.os": strax.io.__dict__.get("os"),
            "io.open": strax.io.__dict__.get("open", None), "strax.save_file": strax.save_file,
            "io.save_file": strax.io.save_file,
        }
        files.os = os_proxy
        files.shutil = sh_proxy
        files.open = self._open
        strax.io.os = os_proxy
        strax.io.open = self._open
        wrapped = self._wrap_save_file(strax.io.save_file)
        strax.io.save_file = wrapped
        strax.save_file = wrapped
        return self

    def uninstall(self):
        import strax
        import strax.io
        import strax.storage.files as files
        s = self._saved
        if s is None:
            return
        files.os = s["files.os"]
        files.shutil = s["files.shutil"]
        if s["files.open"] is None:
            files.__dict__.pop("open", None)
        else:
            files.open = s["files.open"]
        strax.io.os = s["io.os"]
        if s["io.open"] is None:
            strax.io.__dict__.pop("open", None)
        else:
            strax.io.open = s["io.open"]
        strax.io.save_file = s["io.save_file"]
        strax.save_file = s["strax.save_file"]
        self._saved = None
        if self._fd is not None:
            os.close(self._fd)
            self._fd = None

    def __enter__(self):
        return self.install()

    def __exit__(self, *a):
        self.uninstall()
        return False


def _payload_repr(data):
    """What was (to be) written: text for small json, digest + length for binary data."""
    import hashlib
    if isinstance(data, str):
        return {"text": data}
    b = bytes(data)
    return {"sha": hashlib.sha1(b).hexdigest()[:16], "len": len(b)}


def read_log(path):
    out = []
    if not os.path.exists(path):
        return out
    with builtins.open(path) as f:
        for line in f:
            line = line.strip()
            if line:
                out.append(json.loads(line))
    return out
