"""Shared machinery for every property check (DESIGN.md section 2.2).

Runs under /venv/bin/python with PYTHONPATH=/repo (the real strax from /repo's working tree).
"""
import ast
import fcntl
import hashlib
import json
import os
import random
import re
import subprocess
import sys
import time

VERIF = os.path.dirname(os.path.dirname(os.path.abspath(__file__)))
REPO = os.environ.get("STRAX_REPO", "/repo")
COQ = os.path.join(VERIF, "coq")
BUILD = os.path.join(VERIF, "build")
EVID = os.path.join(VERIF, "evidence")
REPLAY = os.path.join(BUILD, "replay")
ALLOWED_AXIOMS = {
    # standard-library axioms that may appear (named in DESIGN.md section 6); none is used so far
    "functional_extensionality_dep",
    "Eqdep.Eq_rect_eq.eq_rect_eq",
    "JMeq_eq",
    "proof_irrelevance",
    "classic",
}
TRUSTED_BASE = [
    "Coq 8.16.1 kernel (coqc, full .vo build), vm_compute used in Examples/finite lemmas; no native_compute",
    "Coq extraction to OCaml with ExtrOcamlBasic only (bool, option, unit, list, prod, sumbool, sumor "
    "mapped to OCaml types; andb/orb/negb/fst/snd inlined); Z, positive, nat stay inductive",
    "driver/zio.ml + driver/<prop>_main.ml (integer line protocol), OCaml 4.13.1 ocamlfind ocamlopt",
    "Python correspondence harness: generators, canonicalisation, exception-class mapping",
    "harness/constants.py (fail-closed ast extractor regenerating coq/Model/SourceConstants.v)",
    "numpy / numba execution of the real strax code is exercised, not modelled",
]


def now():
    return time.time()


def sh(cmd, timeout=3600, cwd=None, env=None, input=None):
    p = subprocess.run(
        cmd, shell=isinstance(cmd, str), cwd=cwd, env=env, input=input,
        stdout=subprocess.PIPE, stderr=subprocess.STDOUT, text=True, timeout=timeout,
    )
    return p.returncode, p.stdout


# ----------------------------------------------------------------------------------------------
# Build: regenerate SourceConstants.v from /repo, run make (full .vo), extraction + OCaml drivers
# ----------------------------------------------------------------------------------------------

class BuildResult:
    def __init__(self):
        self.ok = True
        self.log = ""
        self.failed_files = []  # .v files whose compilation failed
        self.constants_drift = []
        self.gen_drift = []  # kernels harness/translate.py could not translate
        self.gen_changed = False
        self.regenerated = False


def _flock():
    os.makedirs(BUILD, exist_ok=True)
    f = open(os.path.join(BUILD, ".lock"), "w")
    fcntl.flock(f, fcntl.LOCK_EX)
    return f


def ensure_build(props=None, verbose=False):
    """Regenerate constants, run make -k, (re)build extraction drivers for `props` (list of ids)."""
    from harness import constants, translate

    res = BuildResult()
    lock = _flock()
    try:
        res.regenerated, res.constants_drift = constants.regenerate()
        res.gen_changed, res.gen_drift = translate.regenerate()  # coq/Gen/<Name>.v from the Python source
        sh(os.path.join(VERIF, "bin", "mkproject"))
        rc, out = sh("timeout 3000 make -k -j%d 2>&1" % (os.cpu_count() or 4), cwd=COQ, timeout=3100)
        res.log = out
        if rc != 0:
            res.ok = False
            res.failed_files = re.findall(r'File "\./([^"]+\.v)"', out)
            for m in re.findall(r"\[Makefile[^\]]*: ([^\]]+\.vo)\]", out):
                v = m[:-1]
                if v not in res.failed_files:
                    res.failed_files.append(v)
        for p in props or []:
            ok, log = build_driver(p)
            if not ok:
                res.ok = False
                res.log += "\n" + log
                res.failed_files.append("Extract/Extract%s.v" % p)
        for p in props or []:
            assumptions_log(p)
    finally:
        lock.close()
    if verbose:
        print(res.log[-2000:])
    return res


def _mtime(p):
    try:
        return os.path.getmtime(p)
    except OSError:
        return 0


def build_driver(prop):
    """Extract the property's model to OCaml and compile the line-protocol driver."""
    ext = os.path.join(COQ, "Extract", "Extract%s.v" % prop)
    main = os.path.join(VERIF, "driver", "%s_main.ml" % prop.lower())
    zio = os.path.join(VERIF, "driver", "zio.ml")
    if not os.path.exists(ext):
        return True, "no extraction for %s" % prop
    d = os.path.join(BUILD, "ocaml", prop.lower())
    os.makedirs(d, exist_ok=True)
    binp = os.path.join(d, "model_%s" % prop.lower())
    deps = [ext, main, zio] + _model_vos()
    if os.path.exists(binp) and all(_mtime(x) <= _mtime(binp) for x in deps):
        return True, "up to date"
    rc, out = sh("timeout 600 coqc -Q %s SV %s" % (COQ, ext), cwd=d)
    if rc != 0:
        return False, out
    sh("cp %s %s ." % (zio, main), cwd=d)
    rc, out2 = sh(
        "ocamlfind ocamlopt -w -a -O3 model.mli model.ml zio.ml %s_main.ml -o model_%s 2>&1 || "
        "ocamlfind ocamlopt -w -a model.mli model.ml zio.ml %s_main.ml -o model_%s"
        % ((prop.lower(),) * 4), cwd=d)
    if rc != 0:
        return False, out + out2
    return True, out + out2


def _model_vos():
    out = []
    for root, _, files in os.walk(os.path.join(COQ, "Model")):
        out += [os.path.join(root, f) for f in files if f.endswith(".vo")]
    for root, _, files in os.walk(os.path.join(COQ, "Base")):
        out += [os.path.join(root, f) for f in files if f.endswith(".vo")]
    return out


def assumptions_log(prop):
    """(Re)compile Props/<prop>.v capturing Print Assumptions output."""
    v = os.path.join(COQ, "Props", "%s.v" % prop)
    vo = v + "o"
    logd = os.path.join(BUILD, "assumptions")
    os.makedirs(logd, exist_ok=True)
    log = os.path.join(logd, "%s.log" % prop)
    if not os.path.exists(v) or not os.path.exists(vo):
        if os.path.exists(log):
            os.remove(log)
        return None
    if _mtime(log) >= _mtime(vo):
        return log
    rc, out = sh("timeout 900 coqc -Q . SV Props/%s.v" % prop, cwd=COQ)
    if rc == 0:
        with open(log, "w") as f:
            f.write(out)
        return log
    return None


def model_bin(prop):
    return os.path.join(BUILD, "ocaml", prop.lower(), "model_%s" % prop.lower())


def run_model(prop, lines, timeout=3600):
    """Feed case lines to the extracted model driver; returns list of output lines."""
    if not lines:
        return []
    inp = "\n".join(lines) + "\n"
    p = subprocess.run([model_bin(prop)], input=inp, stdout=subprocess.PIPE, stderr=subprocess.PIPE,
                       text=True, timeout=timeout)
    out = p.stdout.split("\n")
    if out and out[-1] == "":
        out.pop()
    if len(out) != len(lines):
        raise RuntimeError("model driver returned %d lines for %d cases (rc=%s, stderr=%s)"
                           % (len(out), len(lines), p.returncode, p.stderr[-500:]))
    return out


def run_model_parallel(prop, lines, nproc=None):
    nproc = nproc or min(16, os.cpu_count() or 4)
    if len(lines) < 2000:
        return run_model(prop, lines)
    from concurrent.futures import ThreadPoolExecutor
    k = (len(lines) + nproc - 1) // nproc
    parts = [lines[i:i + k] for i in range(0, len(lines), k)]
    with ThreadPoolExecutor(nproc) as ex:
        outs = list(ex.map(lambda part: run_model(prop, part), parts))
    return [x for o in outs for x in o]


def coq_crosscheck(prop, imports, equations, shard=400):
    """Kernel cross-check of the extraction: each equation `lhs = rhs` (Coq text) is proved by
    vm_compute; reflexivity inside coqc.  Returns (n_checked, failures:list[str])."""
    d = os.path.join(BUILD, "cases", prop.lower())
    os.makedirs(d, exist_ok=True)
    fails = []
    files = []
    for si in range(0, len(equations), shard):
        part = equations[si:si + shard]
        name = "cases_%s_%d" % (prop.lower(), si // shard)
        path = os.path.join(d, name + ".v")
        with open(path, "w") as f:
            f.write(imports + "\n")
            for i, eq in enumerate(part):
                f.write("Goal %s. Proof. vm_compute. reflexivity. Qed.\n" % eq)
        files.append((path, part))
    for path, part in files:
        rc, out = sh("timeout 900 coqc -Q %s SV %s" % (COQ, path), cwd=d)
        if rc != 0:
            fails.append(out[-1500:])
    return len(equations), fails


# ----------------------------------------------------------------------------------------------
# Proof accounting
# ----------------------------------------------------------------------------------------------

def proof_accounting(prop, build):
    v = os.path.join(COQ, "Props", "%s.v" % prop)
    acc = {"theorems": [], "obligations": 0, "discharged": 0, "axioms": {}, "unproved_statements": [],
           "refuted": [], "partial": [], "bad_axioms": []}
    if not os.path.exists(v):
        return acc
    src = open(v).read()
    names = re.findall(r"^\s*(?:Theorem|Lemma|Corollary)\s+([A-Za-z0-9_']+)", src, re.M)
    acc["theorems"] = names
    acc["obligations"] = len(names)
    acc["unproved_statements"] = re.findall(r"^\s*Definition\s+(C\d+_full_[A-Za-z0-9_']+)", src, re.M)
    acc["refuted"] = [n for n in names if n.endswith("_refuted")]
    acc["partial"] = [n for n in names if n.endswith("_partial")]
    vo = v + "o"
    compiled = os.path.exists(vo) and _mtime(vo) >= _mtime(v) and ("Props/%s.v" % prop) not in build.failed_files
    if compiled and build.failed_files:
        # a failed dependency leaves a stale .vo behind: check with make -q style dependency test
        rc, _ = sh("make -q Props/%s.vo" % prop, cwd=COQ)
        compiled = rc == 0
    if compiled:
        acc["discharged"] = len(names)
        log = os.path.join(BUILD, "assumptions", "%s.log" % prop)
        if os.path.exists(log):
            txt = open(log).read()
            blocks = re.split(r"(?=Closed under the global context|Axioms:)", txt)
            blocks = [b for b in blocks if b.startswith("Closed") or b.startswith("Axioms:")]
            for n, b in zip(names, blocks):
                if b.startswith("Closed"):
                    acc["axioms"][n] = []
                else:
                    ax = re.findall(r"^([A-Za-z0-9_.']+)\s*:", b, re.M)
                    acc["axioms"][n] = ax
                    for a in ax:
                        if a.split(".")[-1] not in {x.split(".")[-1] for x in ALLOWED_AXIOMS}:
                            acc["bad_axioms"].append((n, a))
    return acc


HYGIENE_RE = re.compile(
    r"\b(Admitted|admit|Axiom|Axioms|Parameter|Parameters|Conjecture|Admit Obligations|bypass_check)\b|"
    r"Unset Guard|Unset Positivity|Unset Universe|type-in-type|impredicative-set")


def strip_coq_comments(s):
    out = []
    depth = 0
    i = 0
    while i < len(s):
        if s.startswith("(*", i):
            depth += 1
            i += 2
        elif s.startswith("*)", i) and depth:
            depth -= 1
            i += 2
        else:
            if not depth:
                out.append(s[i])
            i += 1
    return "".join(out)


def hygiene():
    bad = []
    for root, _, files in os.walk(COQ):
        for f in files:
            if f.endswith(".v") or f == "_CoqProject":
                p = os.path.join(root, f)
                txt = strip_coq_comments(open(p).read())
                for ln, line in enumerate(txt.split("\n"), 1):
                    if HYGIENE_RE.search(line):
                        bad.append("%s:%d: %s" % (os.path.relpath(p, VERIF), ln, line.strip()[:100]))
                # Variable/Hypothesis outside a section
                depth = 0
                for ln, line in enumerate(txt.split("\n"), 1):
                    if re.match(r"\s*Section\s+\w+", line):
                        depth += 1
                    elif re.match(r"\s*End\s+\w+", line) and depth:
                        depth -= 1
                    elif depth == 0 and re.match(r"\s*(Variable|Variables|Hypothesis|Hypotheses|Context)\b", line):
                        bad.append("%s:%d: %s outside section" % (os.path.relpath(p, VERIF), ln, line.strip()[:80]))
    return bad


# ----------------------------------------------------------------------------------------------
# Anchors: normalised-AST hashes of the functions a model mirrors
# ----------------------------------------------------------------------------------------------

def _find_def(tree, qual):
    parts = qual.split(".")
    node = tree
    for part in parts:
        found = None
        for ch in ast.iter_child_nodes(node):
            if isinstance(ch, (ast.FunctionDef, ast.ClassDef, ast.AsyncFunctionDef)) and ch.name == part:
                found = ch
                break
        if found is None:
            return None
        node = found
    return node


def anchor_hash(relpath, qual):
    path = os.path.join(REPO, relpath)
    try:
        tree = ast.parse(open(path).read())
    except Exception:
        return None
    node = _find_def(tree, qual)
    if node is None:
        return None
    # drop docstrings
    for n in ast.walk(node):
        if isinstance(n, (ast.FunctionDef, ast.ClassDef)) and n.body and isinstance(n.body[0], ast.Expr) \
                and isinstance(getattr(n.body[0], "value", None), ast.Constant) and isinstance(n.body[0].value.value, str):
            n.body = n.body[1:] or [ast.Pass()]
    return hashlib.sha1(ast.dump(node, annotate_fields=False, include_attributes=False).encode()).hexdigest()[:16]


def anchor_drift(prop):
    path = os.path.join(VERIF, "harness", "anchors", "%s.json" % prop)
    if not os.path.exists(path):
        return []
    table = json.load(open(path))
    drift = []
    for key, h in table.items():
        rel, qual = key.split("::")
        cur = anchor_hash(rel, qual)
        if cur != h:
            drift.append({"anchor": key, "expected": h, "found": cur})
    return drift


# ----------------------------------------------------------------------------------------------
# Check context: violations, known findings, evidence
# ----------------------------------------------------------------------------------------------

class Ctx:
    def __init__(self, prop, tier, seed):
        self.prop = prop
        self.tier = tier
        self.seed = seed
        self.rng = random.Random((seed * 1000003) ^ int(hashlib.sha1(prop.encode()).hexdigest()[:8], 16))
        self.t0 = now()
        self.violations = []  # dicts
        self.known_hits = []
        self.coverage = {"evaluations": 0, "distinct_nontrivial": 0, "rule": "", "samples": [],
                         "distribution": {}, "units": {}}
        self.assumptions = []
        self.build = None
        self.acc = None
        self.drift = []
        self.notes = []
        self.known = load_known(prop)

    @property
    def thorough(self):
        return self.tier == "thorough"

    def escalated(self):
        """True when anchors drifted / constants drifted: use the larger generator budget."""
        return bool(self.drift) or bool(self.build and self.build.constants_drift)

    def count(self, unit, n_eval, n_nontrivial, dist=None):
        u = self.coverage["units"].setdefault(unit, {"evaluations": 0, "distinct_nontrivial": 0})
        u["evaluations"] += n_eval
        u["distinct_nontrivial"] += n_nontrivial
        self.coverage["evaluations"] += n_eval
        self.coverage["distinct_nontrivial"] += n_nontrivial
        if dist:
            d = self.coverage["distribution"].setdefault(unit, {})
            for k, v in dist.items():
                d[k] = d.get(k, 0) + v

    def sample(self, s):
        if len(self.coverage["samples"]) < 12:
            self.coverage["samples"].append(s)

    def violation(self, unit, what, replay, signature=None, no_failing_input=False):
        """Record a violation.  `replay` is a JSON-serialisable object (concrete input / schedule /
        history, or the name of the theorem/correspondence that no longer checks)."""
        sig = signature or {"unit": unit, "input": replay.get("input") if isinstance(replay, dict) else replay}
        for k in self.known:
            if k.get("status") == "known" and k.get("unit") == unit and _sig_match(k.get("input"), sig.get("input")):
                if k not in self.known_hits:
                    self.known_hits.append(k)
                return False
        # cap per kind, so that early no-failing-input disagreements can never crowd out concrete inputs
        n_same = sum(1 for v in self.violations if v["nfi"] == bool(no_failing_input))
        if n_same >= (12 if no_failing_input else 30):
            return True
        os.makedirs(REPLAY, exist_ok=True)
        idx = len(self.violations)
        path = os.path.join(REPLAY, "%s_%s_%d.json" % (self.prop, self.tier, idx))
        obj = {"property": self.prop, "unit": unit, "what": what, "replay": replay,
               "no_failing_input_found": bool(no_failing_input),
               "replay_cmd": "bin/check %s --replay %s" % (self.prop, path)}
        with open(path, "w") as f:
            json.dump(obj, f, indent=1, default=str)
        self.violations.append({"unit": unit, "what": what, "path": path, "nfi": no_failing_input})
        return True


def _sig_match(a, b):
    return json.dumps(a, sort_keys=True, default=str) == json.dumps(b, sort_keys=True, default=str)


def load_known(prop):
    p = os.path.join(VERIF, "known_findings.json")
    if not os.path.exists(p):
        return []
    return [k for k in json.load(open(p)).get("findings", []) if k.get("property") == prop]


def finish(ctx, level="proof"):
    """Print KNOWN-FINDING / VIOLATION lines, write evidence, return exit code."""
    for k in ctx.known_hits:
        print("KNOWN-FINDING: property=%s %s" % (ctx.prop, k.get("what", "")))
    concrete_units = {v["unit"] for v in ctx.violations if not v["nfi"]}
    # a disagreement without failing input is superseded by a concrete failing input of the same unit
    ctx.violations = [v for v in ctx.violations if not (v["nfi"] and v["unit"] in concrete_units)]
    seen_nfi = set()
    kept = []
    for v in ctx.violations:
        if v["nfi"]:
            if v["unit"] in seen_nfi:
                continue
            seen_nfi.add(v["unit"])
        kept.append(v)
    kept.sort(key=lambda v: v["nfi"])          # concrete failing inputs first
    ctx.violations = kept[:8]
    for v in ctx.violations:
        line = "VIOLATION property=%s replay=%s" % (ctx.prop, v["path"])
        if v["nfi"]:
            line += " no-failing-input-found"
        print(line)
        print("  (%s: %s)" % (v["unit"], v["what"][:300]))
    acc = ctx.acc or {"obligations": 0, "discharged": 0, "theorems": [], "axioms": {}, "unproved_statements": [],
                      "refuted": [], "partial": []}
    cov = dict(ctx.coverage)
    cov["obligations"] = acc["obligations"]
    cov["discharged"] = acc["discharged"]
    cov["theorems"] = acc["theorems"]
    cov["axioms_per_theorem"] = acc["axioms"]
    cov["unproved_statements"] = acc["unproved_statements"]
    cov["partial_theorems"] = acc.get("partial", [])
    cov["refuted_theorems"] = acc.get("refuted", [])
    cov["checker_cmd"] = "make -C coq (coqc 8.16.1, full .vo) ; coqc Props/%s.v with Print Assumptions" % ctx.prop
    cov["trusted_base"] = TRUSTED_BASE
    cov["anchor_drift"] = ctx.drift
    cov["constants_drift"] = ctx.build.constants_drift if ctx.build else []
    cov["known_findings_hit"] = [k.get("what") for k in ctx.known_hits]
    if not cov["samples"]:
        cov["samples"] = ["(no cases generated)"]
    ev = {
        "property_id": ctx.prop,
        "tier": ctx.tier,
        "seed": ctx.seed,
        "level": level,
        "coverage": cov,
        "assumptions": ctx.assumptions,
        "wall_s": round(now() - ctx.t0, 2),
        "violations": len(ctx.violations),
        "notes": ctx.notes,
    }
    evid = os.environ.get("VERIF_EVIDENCE_DIR") or EVID     # bin/seedrun redirects evidence of mutant runs
    os.makedirs(evid, exist_ok=True)
    with open(os.path.join(evid, "%s.json" % ctx.prop), "w") as f:
        json.dump(ev, f, indent=1, default=str)
    return 1 if ctx.violations else 0


def canon(obj):
    return json.dumps(obj, sort_keys=True, default=str)
