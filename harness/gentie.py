"""GenTie obligations of a property: for the pure numba kernels the property's model mirrors, the
MiniPy program regenerated from the Python source (harness/translate.py -> coq/Gen/<Name>.v) must
still translate, and the machine-checked refinement proof (coq/Proof/Refine<Name>.v) and the
restated property theorems (coq/Props/GenTie<Prop>.v) must still compile against it.

    obligations(prop) -> [(name, ok, detail), ...]     ([] for properties without tied kernels)

Call it after lib.ensure_build (which regenerates coq/Gen and runs make).  Used by check.py:

    from harness import gentie
    broken += ["GenTie %s: %s" % (n, d) for n, ok, d in gentie.obligations(prop, ctx.build) if not ok]
"""
import os

from harness import lib, translate

# property -> kernels (translate.KERNELS names) whose refinement the property depends on
PROP_KERNELS = {}
for _name, _rel, _qual, _ident, _props in translate.KERNELS:
    for _p in _props.split(","):
        PROP_KERNELS.setdefault(_p, []).append(_name)
# symmetric_moving_average (C19) is not tied: the source divides in floating point (see design_notes/GenTie.md)
PROP_KERNELS.setdefault("C19", [])


def _fresh(stem, build=None):
    """coq/<stem>.vo exists, is newer than its source, did not fail in this build, and make agrees"""
    v = os.path.join(lib.COQ, stem + ".v")
    vo = v + "o"
    if not os.path.exists(v):
        return False, "%s.v missing" % stem
    if not os.path.exists(vo):
        return False, "%s.vo was not built" % stem
    if lib._mtime(vo) < lib._mtime(v):
        return False, "%s.vo is older than its source" % stem
    if build is not None and (stem + ".v") in build.failed_files:
        return False, "%s.v failed to compile" % stem
    rc, _ = lib.sh("make -q %s.vo" % stem, cwd=lib.COQ)
    if rc != 0:
        return False, "%s.vo is out of date (a dependency changed or failed)" % stem
    return True, "built"


def obligations(prop, build=None):
    prop = prop.upper()
    kernels = PROP_KERNELS.get(prop, [])
    if not kernels:
        return []
    out = []
    drift = translate.drifted_kernels()
    if build is not None:
        for d in getattr(build, "gen_drift", []):
            drift.setdefault(d.split(":")[0], d)
    info = {k[0]: k for k in translate.KERNELS}
    for name in kernels:
        _n, rel, qual, ident, _p = info[name]
        where = "%s::%s" % (rel, qual)
        if name in drift:
            out.append(("translate %s" % where, False,
                        "outside the MiniPy subset, no program generated (%s)" % drift[name]))
            out.append(("refine %s" % where, False, "no generated program to refine"))
            continue
        gen = os.path.join(translate.GEN, name + ".v")
        out.append(("translate %s" % where, os.path.exists(gen), "coq/Gen/%s.v" % name))
        ok, why = _fresh("Proof/Refine%s" % name, build)
        out.append(("refine %s" % where, ok,
                    "Proof/Refine%s.v (generated program = hand-written model, all inputs): %s" % (name, why)))
    pfile = "GenTie%s" % prop
    ok, why = _fresh("Props/%s" % pfile, build)
    if ok:
        lib.assumptions_log(pfile)
        acc = lib.proof_accounting(pfile, build if build is not None else lib.BuildResult())
        ok = acc["obligations"] > 0 and acc["discharged"] == acc["obligations"] and not acc["bad_axioms"]
        why = "%d/%d theorems, axioms: %s" % (acc["discharged"], acc["obligations"],
                                              acc["bad_axioms"] or "none")
    out.append(("Props/%s.vo" % pfile, ok, why))
    return out


if __name__ == "__main__":
    import sys
    b = lib.ensure_build(props=[])
    for p in sys.argv[1:] or sorted(PROP_KERNELS):
        for o in obligations(p, b):
            print(p, o)
