"""Helpers to drive the real strax from abstract rows (t, e, id, ch)."""
import numpy as np
import strax

DT_ENDTIME = np.dtype([(("Start time", "time"), np.int64), (("End time", "endtime"), np.int64),
                       ("id", np.int64), ("channel", np.int16)])
DT_LENGTH = np.dtype([(("Start time", "time"), np.int64), ("length", np.int32), ("dt", np.int16),
                      ("id", np.int64), ("channel", np.int16)])


def mk_array(rows, enc="endtime"):
    """rows: list of (t, e, id, ch).  enc: 'endtime' or 'length' (dt = 1)."""
    if enc == "endtime":
        a = np.zeros(len(rows), dtype=DT_ENDTIME)
        for i, (t, e, rid, ch) in enumerate(rows):
            a[i] = (t, e, rid, ch)
    else:
        a = np.zeros(len(rows), dtype=DT_LENGTH)
        for i, (t, e, rid, ch) in enumerate(rows):
            a[i] = (t, e - t, 1, rid, ch)
    return a


def rows_of(a):
    e = strax.endtime(a)
    ch = a["channel"] if "channel" in a.dtype.names else np.zeros(len(a), int)
    return [(int(a["time"][i]), int(e[i]), int(a["id"][i]), int(ch[i])) for i in range(len(a))]


def ids_of(a):
    return [int(x) for x in a["id"]]


def enc_rows(rows):
    """line-protocol encoding: n then 4 ints per row"""
    out = [str(len(rows))]
    for r in rows:
        out += [str(int(x)) for x in r]
    return " ".join(out)


def exc_class(e):
    return type(e).__name__
