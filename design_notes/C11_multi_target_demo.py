"""C11 finding 2: SaveWhen.TARGET is lost when several targets of one data kind are requested together.

    PYTHONPATH=/repo /venv/bin/python design_notes/C11_multi_target_demo.py

`st.make(run, "p1")` saves p1 (policy TARGET, and it is the target).  `st.make(run, ("p1", "p2"))` saves
neither: get_iter replaces the two same-kind targets by a temporary merge plugin `_temp_...`, get_components
is called with targets=("_temp_...",), and `_target_should_be_saved` evaluates `target in targets` against
that tuple.
"""
import os
import shutil
import tempfile

import numpy as np
import strax

def DT(name):
    return np.dtype([(("Start time", "time"), np.int64), (("End time", "endtime"), np.int64),
                     (("value of " + name, "x_" + name), np.int64)])


class Source(strax.Plugin):
    provides = "src"
    depends_on = tuple()
    data_kind = "src"
    dtype = DT("src")
    rechunk_on_save = False

    def source_finished(self):
        return True

    def is_ready(self, chunk_i):
        return chunk_i < 2

    def compute(self, chunk_i):
        r = np.zeros(2, self.dtype)
        r["time"] = 10 * chunk_i + np.arange(2)
        r["endtime"] = r["time"] + 1
        return self.chunk(start=10 * chunk_i, end=10 * chunk_i + 10, data=r)


def derived(name):
    def compute(self, src):
        r = np.zeros(len(src), self.dtype)
        r["time"], r["endtime"] = src["time"], src["endtime"]
        return r
    return type("P_" + name, (strax.Plugin,), dict(
        provides=name, depends_on="src", data_kind="derived", dtype=DT(name), rechunk_on_save=False,
        save_when=strax.SaveWhen.TARGET, compute=compute))


def stored(path):
    return sorted(fn.split("-")[1] for fn in os.listdir(path) if not fn.endswith("_temp"))


def main():
    tmp = tempfile.mkdtemp()
    try:
        for k, targets in enumerate(("p1", ("p1", "p2"))):
            path = os.path.join(tmp, "dir%d" % k)
            st = strax.Context(storage=[strax.DataDirectory(path)], register=[Source, derived("p1"), derived("p2")],
                               allow_multiprocess=False)
            st.make("0", targets)
            print("make('0', %r) stored:" % (targets,), stored(path))
    finally:
        shutil.rmtree(tmp, ignore_errors=True)


if __name__ == "__main__":
    main()
