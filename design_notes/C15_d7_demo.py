"""Demonstration of finding D7 (C15): one strax.Context used by the worker threads of a multi-run call.

  PYTHONHASHSEED=0 PYTHONPATH=<strax tree>:/verif /venv/bin/python design_notes/C15_d7_demo.py [--os N]

Part 1 (deterministic): replays the four minimal interleavings of coq/Proof/CtxRacePinnedWitnessProof.v on the
real code with the line-level interleaver: two threads, each calling st.get_array(run, targets) on ONE
context; a thread runs only while it holds the baton and hands it back at every source line of
strax/context.py that touches _plugin_class_registry / _fixed_plugin_cache.
Part 2 (--os N): N trials of st.get_array(runs, targets, max_workers=4) under sys.setswitchinterval(1e-6).

On a tree WITHOUT /repo commit d202a14 part 1 prints a RuntimeError / KeyError for worker 1 in all four cases;
with that repair (design_notes/C15_d7_fix.diff is the same diff) every call returns the rows of the sequential calls.
"""
import collections
import sys

sys.path.insert(0, ".")
from harness.props import c15_ctx as cx  # noqa: E402
from harness.props.c15 import quiet  # noqa: E402

EXPLAIN = {
    "wa1": "2 targets: worker 1 registered its temporary merge plugin and loops over the registry in "
           "Context.register (45 statements in); worker 0 runs its whole call (its cleanup deletes every '_temp*' "
           "key); worker 1 resumes",
    "wa2": "2 targets: as wa1 but worker 1 is stopped one statement earlier; it then looks its temporary plugin up "
           "in is_stored",
    "wb1": "1 target, cold cache: worker 0 is about to add `aa` to the plugin cache (19 statements in); worker 1 "
           "finds `src` cached and iterates the cache in __get_requested_plugins_from_cache (30 in); worker 0 "
           "inserts; worker 1 resumes",
    "wb2": "1 target, cold cache: both workers saw _fixed_plugin_cache is None; worker 1 created and filled the "
           "cache; worker 0 then replaces it by an empty one; worker 1 reads `src` from the new cache",
}


def part1():
    for name, (sc, warm, ncalls, segs, exp) in cx.PINNED_WITNESSES.items():
        print("== %s: targets %s, %s cache; schedule (thread, statements) %s then every thread to its end"
              % (name, sc["targets"], "warm" if warm else "cold", segs))
        print("   " + EXPLAIN[name])
        rres, _ = cx.run_real(sc, warm, ncalls, segs)
        for tid, r in enumerate(rres):
            print("   worker %d: %s" % (tid, r["msg"] or ("ok, rows equal the sequential call: %s" % r["data_ok"])))
    cx.cleanup_tmp()


def part2(n):
    import numpy as np
    sc = dict(graph="two", targets=("aa", "bb"), storage="none")
    runs = ["101", "102", "103", "104"]
    old = sys.getswitchinterval()
    sys.setswitchinterval(1e-6)
    out = collections.Counter()
    try:
        for _ in range(n):
            with quiet():
                st = cx.make_context(sc)
                try:
                    got = st.get_array(runs, ("aa", "bb"), max_workers=4, multi_run_progress_bar=False)
                    exp = cx.expected_multi(sc, runs, set())
                    out["ok" if cx.same_array(got, exp) else "WRONG ROWS"] += 1
                except Exception as e:  # noqa
                    out[type(e).__name__ + ": " + str(e)[:80]] += 1
    finally:
        sys.setswitchinterval(old)
    print("== OS schedules, 4 runs x 2 targets x 4 workers, %d trials: %s" % (n, dict(out)))


if __name__ == "__main__":
    part1()
    if "--os" in sys.argv:
        part2(int(sys.argv[sys.argv.index("--os") + 1]))
