"""Implementation-only evaluation of a repaired Mailbox._can_fetch (run with STRAX_REPO / PYTHONPATH pointing
at a scratch worktree of /repo):  PYTHONPATH=<worktree>:/verif /venv/bin/python design_notes/C13_can_fetch_eval.py

 (a) single lazy mailbox (all driver masks with a driver, 1..3 subscribers, 0..4 messages, max_messages
     inf / 1 / 2): exhaustive enumeration with preemption bound 2 and random walks; predicates: delivered
     sequences are prefixes, no deadlock, complete delivery, no thread dies, and at every source advance
     nobody waits for a message that is already in the mailbox (strong demand).
 (b) ThreadedMailboxProcessor pipelines in lazy mode (chains, diamonds, fan-outs, savers, loaders): consumer
     pauses after p chunks or takes everything; predicates P0 (no stall), P1 (N vs 2N), P3, P4, P4s.
No model comparison (the Coq model still has the unrepaired gate)."""
import itertools
import json
import logging
import os
import random
import sys
import time
from functools import partial

sys.path.insert(0, os.path.dirname(os.path.dirname(os.path.abspath(__file__))))
logging.disable(logging.CRITICAL)
sys.unraisablehook = lambda *a: None

import strax
import strax.mailbox
from harness.props import c13
from harness.sched import explore_dfs, random_walks

BIG = 10 ** 9


class OneBox:
    """one lazy strax.Mailbox: sender (tid 0) + subscribers; records the gate view at every source advance"""

    def __init__(self, sched, cap, drives, n):
        sched.patch(strax.mailbox)
        self.sched = sched
        mb = strax.Mailbox(name="mb", timeout=BIG, lazy=True)
        mb.max_messages = cap if cap is not None else float("inf")
        mb.log.disabled = True
        self.mb, self.n = mb, n
        self.views = []
        self.logs = [[] for _ in drives]

        def source():
            for i in range(n):
                nums = [k for k, _ in mb._mailbox]
                self.views.append((i, list(mb._subscriber_waiting_for), nums))
                yield 100 + i
        mb.add_sender(source())

        def sub(src, i):
            for x in src:
                self.logs[i].append(x)
        for i, d in enumerate(drives):
            mb.add_reader(partial(sub, i=i), can_drive=d)
        mb.start()
        todo = iter(range(len(sched.threads)))
        sched.run_driver(lambda s: next(todo, None))
        del sched.schedule[:]

    def observe(self):
        return None

    def final_info(self):
        s = self.sched
        return {"status": [s.status(t) for t in range(len(s.threads))],
                "exc": [type(t.exc).__name__ if t.exc is not None else None for t in s.threads],
                "logs": [list(l) for l in self.logs], "views": list(self.views), "closed": self.mb.closed}


def onebox_failure(n, res):
    info = res.system_info
    exp = [100 + i for i in range(n)]
    if res.outcome == "deadlock":
        return "deadlock: %s" % info["status"]
    if res.outcome != "complete":
        return "outcome %s" % res.outcome
    if any(e for e in info["exc"]):
        return "a thread died: %s" % info["exc"]
    if any(l != exp for l in info["logs"]) or not info["closed"]:
        return "incomplete delivery %s" % info["logs"]
    for i, waiting, nums in info["views"]:
        if any(w is not None and w in nums for w in waiting):
            return "strong demand: item %d fetched while waiting_for=%s and the mailbox holds %s" % (i, waiting, nums)
    return None


def part_a(rng, quick):
    runs = fails = 0
    first = None
    t0 = time.time()
    for S in (1, 2, 3):
        for drives in itertools.product([True, False], repeat=S):
            if not any(drives):
                continue
            for n in range(0, 5 if not quick else 4):
                for cap in (None, 1, 2):
                    fac = lambda sched, cap=cap, drives=drives, n=n: OneBox(sched, cap, drives, n)
                    results = list(explore_dfs(fac, 2 if S < 3 else 1, max_runs=1500 if not quick else 300))
                    results += list(random_walks(fac, rng, 60 if not quick else 15, sticky=rng.choice([0, 0.5, 0.8])))
                    for r in results:
                        runs += 1
                        f = onebox_failure(n, r)
                        if f:
                            fails += 1
                            if first is None:
                                first = {"S": S, "drives": drives, "n": n, "cap": cap, "what": f, "schedule": r.schedule}
    return {"runs": runs, "failures": fails, "first": first, "wall": round(time.time() - t0, 1)}


def part_b(rng, quick):
    shapes = [c13.chain(2), c13.chain(3), c13.chain(3, savers={1: 1}), c13.chain(3, savers={0: 1, 2: 2}),
              c13.chain(2, savers={0: 1}), c13.chain(3, loaders=[0], savers={0: 1}), c13.diamond(),
              c13.diamond(savers={1: 1, 2: 1}), c13.fanout(2), c13.fanout(2, savers={2: 1}),
              c13.fanout(3, target=2, savers={3: 1}), c13.fanout(2, tail=True, savers={1: 1, 2: 1}),
              c13.fan_join(), c13.fan_join(savers={2: 1})]
    tasks = []
    for g in shapes:
        for cap in (1, 2, 3):
            for p in (1, 2):
                N = p + (len(g["nodes"]) + 2) * (2 * cap + 2) + 3
                case = {"graph": g, "lazy": True, "cap": cap, "p": p, "N": N, "via": "components"}
                tasks.append({"kind": "adversarial", "case": case, "bound": None, "seed": rng.getrandbits(40),
                              "compare": False})
                tasks.append({"kind": "random", "case": case, "bound": None, "seed": rng.getrandbits(40),
                              "compare": False, "n": 6 if quick else 25, "sticky": rng.choice([0.0, 0.5, 0.85])})
            # the consumer takes everything: no stall anywhere in a complete run
            case = {"graph": g, "lazy": True, "cap": cap, "p": 5, "N": 5, "via": "components"}
            tasks.append({"kind": "random", "case": case, "bound": None, "seed": rng.getrandbits(40),
                          "compare": False, "n": 6 if quick else 25, "sticky": rng.choice([0.0, 0.5, 0.85])})
    for g in (c13.chain(2), c13.chain(2, savers={0: 1}), c13.fanout(2), c13.diamond()):
        case = {"graph": g, "lazy": True, "cap": 1, "p": 1, "N": 3, "via": "components"}
        tasks.append({"kind": "dfs", "case": case, "bound": None, "seed": 0, "compare": False, "bound_pre": 1,
                      "max_runs": 400 if quick else 3000})
    t0 = time.time()
    results = c13.run_tasks(tasks)
    out = {"tasks": len(tasks), "runs": 0, "failures": 0, "strong": 0, "crashes": 0, "first": None, "adv": {}}
    for r in results:
        if "crash" in r:
            out["crashes"] += 1
            out.setdefault("crash", r["crash"][-600:])
            continue
        out["runs"] += r["runs"]
        out["failures"] += r["n_failures"]
        out["strong"] += len(r.get("strong", []))
        for k, v in r["adv"].items():
            out["adv"][k] = out["adv"].get(k, 0) + v
        if r["failures"] and out["first"] is None:
            f = r["failures"][0]
            out["first"] = {"case": c13.tag(r["case"]), "what": f["what"], "schedule": f["schedule"], "names": f["names"]}
        if r.get("strong") and "first_strong" not in out:
            out["first_strong"] = {"case": c13.tag(r["case"]), "what": r["strong"][0]["what"]}
    out["wall"] = round(time.time() - t0, 1)
    return out


if __name__ == "__main__":
    quick = "--quick" in sys.argv
    rng = random.Random(13)
    err = os.fdopen(os.dup(2), "w")
    c13._silence()
    # (b) first: it forks worker processes, which must happen before this process has pooled scheduler threads
    b = part_b(rng, quick)
    err.write("strax from %s\n(b) pipelines, lazy: %s\n" % (os.path.dirname(strax.__file__), json.dumps(b)))
    err.flush()
    a = part_a(rng, quick)
    err.write("(a) single lazy mailbox: %s\n" % json.dumps(a))
    err.flush()
