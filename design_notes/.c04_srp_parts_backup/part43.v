
  Ltac doop Ed :=
    destruct (do_op_spec _ _ _ _ _ _ Ed)
      as (oc & f' & Ha & Hpc' & Hfs & Htd & Hi & Hrec & Hpend & Hexc & Hkill & Hdel & Htr & Hmon & Hok1 & Hok2 & Hok3).

  Notation mstep := (main_step cfg inp pl pc0).
  Notation wstep := (work_step pl pc0).

  Lemma final_kept f o oc f' :
    apply_ev f (o, oc) = Some f' -> o <> ORmFinal -> o <> ORenameDir -> f_final f' = f_final f.
  Proof.
    intros H N1 N2.
    assert (Hd : forall g, apply_done f o = Some g -> f_final g = f_final f).
    { intros g Hg. destruct o; cbn in Hg; unfold on_temp in Hg; try contradiction;
        try (destruct (f_temp f) as [d|]; try discriminate);
        try match type of Hg with context [dlookup ?a ?b] => destruct (dlookup a b) end;
        try discriminate; inversion Hg; subst; reflexivity. }
    destruct oc as [|[]]; cbn in H; auto.
    - inversion H; reflexivity.
    - destruct o; try discriminate; unfold on_temp in H; destruct (f_temp f); inversion H; reflexivity.
  Qed.

