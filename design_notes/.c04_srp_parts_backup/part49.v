
  (* --- _save_chunk_metadata: append the chunk info, flush the metadata --------------------------- *)
  Lemma mem_pair_infos_app a c b : mem_pair (fst (fst c), snd (fst c)) (infos (a ++ c :: b)) = true.
  Proof.
    unfold mem_pair. apply existsb_exists. exists (fst (fst c), snd (fst c)). split.
    - unfold infos. rewrite map_app. apply in_or_app. right. left. reflexivity.
    - apply pair_eqb_eq. reflexivity.
  Qed.

  Lemma forallb_mem_infos_prefix a b : forallb (fun q => mem_pair q (infos (a ++ b))) (infos a) = true.
  Proof.
    apply forallb_forall. intros q Hin. unfold mem_pair. apply existsb_exists. exists q. split.
    - rewrite infos_app. apply in_or_app. left. exact Hin.
    - apply pair_eqb_eq. reflexivity.
  Qed.

  Lemma main_rec s p n : cinvp s p -> c_pc s = PRec n -> exists p', cinvp (mstep s) p'.
  Proof.
    intros I Hpc. pose proof I as [B C]. unfold main_step. rewrite Hpc.
    pose proof (cp_phase _ _ _ _ _ C) as Hph. unfold phase_rel in Hph. rewrite Hpc in Hph.
    destruct Hph as [Hph Hfin].
    assert (Hek : c_exc s = true -> c_kill s = true).
    { intros He. destruct (cp_excpc _ _ _ _ _ C He) as [H|H]; [exact H | rewrite Hpc in H; destruct H]. }
    set (rec' := c_rec s ++ [(c_i s, n)]).
    set (s1 := mkCst (PRec n) (c_fs s) (c_todo s) (c_i s) rec' (c_pend s) (c_exc s) (c_kill s) (c_deliv s)
                 (c_tr s) (c_mon s) (c_nf s)).
    assert (B1 : cbase s1 p) by (destruct B; constructor; cbn; auto).
    (* the flush lists only recorded chunk infos *)
    assert (Hrun : running_ok pc0 p (mkMeta rec' false false) = true).
    { unfold running_ok. cbn [m_chunks]. destruct (p_failed p) eqn:Epf; [reflexivity|]. cbn.
      destruct (c_exc s) eqn:Ee; [rewrite (cb_exc _ _ _ _ B Ee) in Epf; discriminate|].
      destruct (cp_data _ _ _ _ _ C Ee) as (dn & cur & Hx & Hr & Hc & Hlt & Hch & Ht); [rewrite Hpc; discriminate|].
      unfold cur_ok in Hc. rewrite Hpc in Hc. destruct Hc as (v & -> & Hc).
      cbn in Hx. rewrite Hpc0, Hx. unfold rec'. rewrite Hr.
      rewrite forallb_app. apply Bool.andb_true_iff. split.
      - apply forallb_mem_infos_prefix.
      - cbn. rewrite Bool.andb_true_r. apply (mem_pair_infos_app dn (c_i s, n, v)). }
    destruct (do_op pl pc0 s1 (OWriteMeta (mkMeta rec' false false))) as [s' ok] eqn:Ed.
    destruct (main_event_b s1 p _ s' ok (fun _ => PhOpen) (fun oc => p_failed p || is_fail oc)
                (fun _ => p_tmp p) (fun _ => p_fin p) B1
                (fun oc => pstep_meta_running pc0 p (mkMeta rec' false false) oc Hph eq_refl Hrun)
                (fun oc => failed_mono _ oc)
                (or_intror (fun _ => conj eq_refl eq_refl)) Ed)
      as (oc & B' & Ha & Hpc' & Htd & Hi & Hrec & Hpend & Hexc & Hkill & Hok1 & Hok2 & _).
    cbn [s1 c_pc c_fs c_todo c_i c_rec c_pend c_exc c_kill] in Ha, Hpc', Htd, Hi, Hrec, Hpend, Hexc, Hkill.
    assert (Hfin' : f_final (c_fs s') = None)
      by (rewrite (final_kept _ _ _ _ Ha); [exact Hfin | discriminate | discriminate]).
    destruct ok.
    - assert (oc = Done) by auto; subst oc. eexists.
      split.
      + destruct B' as [Bm Bi Be Bk Bt Bn Ba Bp]. constructor; cbn; eauto.
      + assert (Hcls : cur_class (after_rec cfg s') <> 0%nat /\ open_pc (after_rec cfg s') = true /\
                       after_rec cfg s' <> PClose /\ after_rec cfg s' <> PAbort /\
                       match after_rec cfg s' with PSaveW _ _ | PSaveR _ => False | _ => True end /\
                       (after_rec cfg s' = PLoop \/ after_rec cfg s' = PCheck)).
        { unfold after_rec. destruct (r_proc cfg); [|destruct (c_kill s')]; cbn; repeat split; auto; discriminate. }
        destruct Hcls as (Hc1 & Hc2 & Hc3 & Hc4 & Hc5 & Hc6).
        constructor; cbn [c_pc c_pend c_exc c_kill c_fs c_i c_todo c_rec p_ph p_failed p_tmp p_fin];
          rewrite ?Hpend, ?Hexc, ?Hkill.
        * unfold phase_rel. cbn [c_pc c_fs c_pend]. destruct Hc6 as [-> | ->]; split; auto.
        * intros _ _. exact Hc5.
        * intros _. split; [exact Hc2 | exact Hc3].
        * intros H. contradiction.
        * intros He. left; auto.
        * intros _ Hpf. cbn in Hpf. rewrite Bool.orb_false_r in Hpf.
          apply (cp_J _ _ _ _ _ C); [rewrite Hpc; discriminate | exact Hpf].
        * intros He _.
          destruct (cp_data _ _ _ _ _ C He) as (dn & cur & Hx & Hr & Hc & Hlt & Hch & Ht); [rewrite Hpc; discriminate|].
          unfold cur_ok in Hc. rewrite Hpc in Hc. destruct Hc as (v & -> & Hc).
          exists (dn ++ [(c_i s, n, v)]), [].
          cbn [c_pc c_pend c_exc c_kill c_fs c_i c_todo c_rec]. rewrite Hi, Htd, Hrec, ?Hpend.
          split; [cbn in Hx; rewrite Hx, <- app_assoc; reflexivity|].
          split; [unfold rec'; rewrite infos_app, Hr; reflexivity|].
          split; [unfold cur_ok; cbn [c_pc]; destruct Hc6 as [-> | ->]; reflexivity|].
          split.
          { intros i n' v' Hin. apply in_app_or in Hin as [Hin|[Hin|[]]]; [specialize (Hlt _ _ _ Hin); lia|].
            inversion Hin; subst. lia. }
          split.
          { intros i n' v' Hin Hn'. apply in_app_or in Hin as [Hin|[Hin|[]]].
            - eapply chunk_ok_fin; [|apply (Hch _ _ _ Hin Hn')]. reflexivity.
            - inversion Hin; subst. eapply chunk_ok_fin; [|apply (Hc Hn')]. reflexivity. }
          intros t Hin. left. destruct (Ht t Hin) as [H|[H _]]; lia.
    - eexists. apply handler_inv.
      + exact B'.
      + cbn. rewrite (Hok2 eq_refl). apply Bool.orb_true_r.
      + split; [reflexivity | exact Hfin'].
      + rewrite Hpc'. reflexivity.
      + rewrite Hpc'. discriminate.
      + rewrite Hexc, Hkill. exact Hek.
      + auto.
  Qed.
