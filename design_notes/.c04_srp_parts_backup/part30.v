
(* ------------------------------------------------------------------------------------------ *)
(* lists of pending writes                                                                    *)
(* ------------------------------------------------------------------------------------------ *)

Lemma task_for_In i l t : task_for i l = Some t -> In t l /\ t_i t = i.
Proof.
  unfold task_for. intros H. apply find_some in H as [H1 H2]. apply Z.eqb_eq in H2. auto.
Qed.

Lemma task_for_None i l : task_for i l = None -> forall t, In t l -> t_i t <> i.
Proof.
  unfold task_for. intros H t Hin E. pose proof (find_none _ _ H t Hin) as H2. cbn in H2.
  apply Z.eqb_neq in H2. contradiction.
Qed.

Lemma task_for_unique i l t : NoDup (map t_i l) -> In t l -> t_i t = i -> task_for i l = Some t.
Proof.
  unfold task_for. induction l as [|a l IH]; intros Hnd Hin Hi; [destruct Hin|].
  cbn. inversion Hnd as [|x xs Hnot Hnd']; subst x xs.
  destruct Hin as [->|Hin].
  - rewrite Hi, Z.eqb_refl. reflexivity.
  - destruct (t_i a =? i) eqn:E.
    + apply Z.eqb_eq in E. exfalso. apply Hnot. rewrite E, <- Hi. apply in_map. exact Hin.
    + apply IH; auto.
Qed.

Lemma task_for_app_other i l t : t_i t <> i -> task_for i (l ++ [t]) = task_for i l.
Proof.
  unfold task_for. intros Hne. induction l as [|a l IH]; cbn.
  - destruct (t_i t =? i) eqn:E; [apply Z.eqb_eq in E; contradiction | reflexivity].
  - destruct (t_i a =? i); [reflexivity | exact IH].
Qed.

Lemma task_for_app_new i l t :
  (forall u, In u l -> t_i u <> i) -> t_i t = i -> task_for i (l ++ [t]) = Some t.
Proof.
  unfold task_for. intros Hall Hi. induction l as [|a l IH]; cbn.
  - rewrite Hi, Z.eqb_refl. reflexivity.
  - destruct (t_i a =? i) eqn:E.
    + apply Z.eqb_eq in E. exfalso. apply (Hall a); [left; reflexivity | exact E].
    + apply IH. intros u Hu. apply Hall. right; exact Hu.
Qed.

Lemma map_upd_nth_id (l : list task) j t t' :
  nth_error l j = Some t -> t_i t' = t_i t -> map t_i (upd_nth l j t') = map t_i l.
Proof.
  revert j; induction l as [|a l IH]; intros j Hn Hi; destruct j; cbn in *; try discriminate.
  - inversion Hn; subst. rewrite Hi. reflexivity.
  - f_equal. eapply IH; eauto.
Qed.

Lemma In_upd_nth (l : list task) j t' u :
  In u (upd_nth l j t') -> u = t' \/ (In u l /\ nth_error l j <> Some u) \/ In u l.
Proof.
  revert j; induction l as [|a l IH]; intros j H; destruct j; cbn in *; auto.
  - destruct H as [->|H]; auto.
  - destruct H as [->|H]; auto. apply IH in H. intuition.
Qed.

(* the elements of upd_nth: the new one at position j, the old ones elsewhere *)
Lemma Forall_upd_nth (P : task -> Prop) l j t' :
  Forall P l -> P t' -> Forall P (upd_nth l j t').
Proof.
  revert j; induction l as [|a l IH]; intros j Hl Ht; destruct j; cbn; auto;
    inversion Hl; subst; constructor; auto.
Qed.

Lemma Forall_upd_nth_other (P Q : task -> Prop) l j t t' :
  NoDup (map t_i l) -> nth_error l j = Some t ->
  Forall P l -> (forall u, In u l -> t_i u <> t_i t -> P u -> Q u) -> Q t' ->
  Forall Q (upd_nth l j t').
Proof.
  revert j; induction l as [|a l IH]; intros j Hnd Hn Hl Hpq Ht; destruct j; cbn in *; try discriminate; auto.
  - inversion Hn; subst a. inversion Hl; subst. inversion Hnd; subst. constructor; [exact Ht|].
    rewrite Forall_forall in *. intros u Hu. apply Hpq; auto.
    intros E. apply H3. rewrite <- E. apply in_map; exact Hu.
  - inversion Hl; subst. inversion Hnd; subst. constructor.
    + apply Hpq; auto. intros E. apply H3. rewrite E. apply in_map. eapply nth_error_In; eauto.
    + eapply IH; eauto.
Qed.

Lemma task_for_upd i l j t t' :
  NoDup (map t_i l) -> nth_error l j = Some t -> t_i t' = t_i t ->
  task_for i (upd_nth l j t') = if t_i t =? i then Some t' else task_for i l.
Proof.
  unfold task_for. revert j; induction l as [|a l IH]; intros j Hnd Hn Hi; destruct j; cbn in *; try discriminate.
  - inversion Hn; subst a. rewrite Hi. destruct (t_i t =? i); reflexivity.
  - inversion Hnd; subst.
    destruct (t_i a =? i) eqn:Ea.
    + destruct (t_i t =? i) eqn:Et; [|reflexivity].
      apply Z.eqb_eq in Ea, Et. exfalso. apply H1. rewrite Ea, <- Et. apply in_map. eapply nth_error_In; eauto.
    + eapply IH; eauto.
Qed.

Lemma existsb_upd_nth (f : task -> bool) l j t t' :
  nth_error l j = Some t -> f t = false ->
  existsb f (upd_nth l j t') = existsb f l || f t'.
Proof.
  revert j; induction l as [|a l IH]; intros j Hn Hf; destruct j; cbn in *; try discriminate.
  - inversion Hn; subst. rewrite Hf. cbn. apply Bool.orb_comm.
  - rewrite (IH _ Hn Hf). rewrite Bool.orb_assoc. reflexivity.
Qed.

Lemma upd_nth_nil_iff (l : list task) j t' : upd_nth l j t' = [] <-> l = [].
Proof. destruct l, j; cbn; split; intros H; try discriminate; auto. Qed.

Lemma NoDup_map_filter (f : task -> bool) l : NoDup (map t_i l) -> NoDup (map t_i (filter f l)).
Proof.
  induction l as [|a l IH]; intros H; cbn; [constructor|]. inversion H; subst.
  destruct (f a); cbn; auto. constructor; auto.
  intros Hin. apply H2. apply in_map_iff in Hin as (u & Hu & Hin). apply filter_In in Hin as [Hin _].
  rewrite <- Hu. apply in_map. exact Hin.
Qed.

Lemma task_for_filter_keep i l f t :
  task_for i l = Some t -> f t = true -> task_for i (filter f l) = Some t.
Proof.
  unfold task_for. induction l as [|a l IH]; cbn; intros H Hf; [discriminate|].
  destruct (t_i a =? i) eqn:E.
  - inversion H; subst a. rewrite Hf. cbn. rewrite E. reflexivity.
  - destruct (f a); cbn; [rewrite E|]; apply IH; auto.
Qed.

Lemma task_for_filter_none i l f :
  (forall t, In t l -> t_i t = i -> f t = false) -> task_for i (filter f l) = None.
Proof.
  unfold task_for. induction l as [|a l IH]; cbn; intros H; [reflexivity|].
  destruct (f a) eqn:Ef; cbn.
  - destruct (t_i a =? i) eqn:E.
    + apply Z.eqb_eq in E. rewrite (H a (or_introl eq_refl) E) in Ef. discriminate.
    + apply IH. intros; apply H; auto.
  - apply IH. intros; apply H; auto.
Qed.

Lemma first_undone_spec l : forall k j, first_undone l k = Some j ->
  exists t, nth_error l (j - k) = Some t /\ t_done t = false /\ (k <= j)%nat.
Proof.
  induction l as [|a l IH]; intros k j H; cbn in H; [discriminate|].
  destruct (t_done a) eqn:E.
  - destruct (IH _ _ H) as (t & Hn & Hd & Hk). exists t.
    replace (j - k)%nat with (S (j - S k)) by lia. cbn. repeat split; auto; lia.
  - inversion H; subst. exists a. rewrite Nat.sub_diag. cbn. auto.
Qed.

Lemma forallb_false_exists (f : task -> bool) l : forallb f l = false -> exists t, In t l /\ f t = false.
Proof.
  induction l as [|a l IH]; cbn; intros H; [discriminate|].
  destruct (f a) eqn:E; [destruct (IH H) as (t & Hin & Hf); eauto | eauto].
Qed.
