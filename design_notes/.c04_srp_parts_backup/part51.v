
  Lemma work_step_inv s j : cinv cfg inp pc0 s -> cinv cfg inp pc0 (wstep s j).
  Proof.
    intros [p I]. unfold work_step.
    destruct (nth_error (c_pend s) j) as [t|] eqn:Hn; [|exists p; exact I].
    pose proof I as [B C]. pose proof (nth_error_In _ _ Hn) as Hin.
    pose proof (cb_tasks _ _ _ _ B) as HT. rewrite Forall_forall in HT. specialize (HT t Hin).
    destruct (t_st t) eqn:Est; try (exists p; exact I).
    - (* write the temp file *)
      assert (Hd : t_done t = false) by (unfold t_done; rewrite Est; reflexivity).
      destruct (undone_open s p t I Hin Hd) as (Hop & Hnc & Hph & Hfin & Hasy & Hkf).
      destruct (do_op pl pc0 s (OWriteTmp (t_i t) (t_v t))) as [s' ok] eqn:Ed.
      refine (worker_event s p j t (OWriteTmp (t_i t) (t_v t)) s' ok
                (fun oc => match oc with
                           | Done | Failed EFull => (t_i t, t_v t) :: rm_i (t_i t) (p_tmp p)
                           | Failed ETrunc => rm_i (t_i t) (p_tmp p)
                           | Failed ENone => p_tmp p
                           end) (fun _ => p_fin p) (mkTask (t_i t) (t_v t) (if ok then TWritten else TFail))
                I Hn Hd _ _ _ Ed eq_refl eq_refl _ _ _ _).
      + intros oc. apply pstep_wtmp. exact Hph.
      + intros oc b Hb. split; [|reflexivity].
        destruct oc as [|[]]; try reflexivity;
          try (rewrite lookup_i_cons_other by auto); rewrite lookup_i_rm_other by auto; reflexivity.
      + split; discriminate.
      + intros ->. reflexivity.
      + intros ->. split; [|reflexivity]. unfold task_inv. cbn. rewrite Z.eqb_refl. reflexivity.
      + intros H. apply H.
      + destruct (cb_inv _ _ _ _ B) as [_ Hi]. rewrite Hph in Hi. destruct Hi as (d & Hd' & _).
        cbn. unfold on_temp. rewrite Hd'. discriminate.
    - (* rename it *)
      assert (Hd : t_done t = false) by (unfold t_done; rewrite Est; reflexivity).
      destruct (undone_open s p t I Hin Hd) as (Hop & Hnc & Hph & Hfin & Hasy & Hkf).
      unfold task_inv in HT. rewrite Est in HT.
      destruct (do_op pl pc0 s (ORenameChunk (t_i t))) as [s' ok] eqn:Ed.
      refine (worker_event s p j t (ORenameChunk (t_i t)) s' ok _ _ (mkTask (t_i t) (t_v t) (if ok then TOk else TFail))
                I Hn Hd (fun oc => pstep_rename' p (t_i t) oc Hph) _ _ Ed eq_refl eq_refl _ _ _ _).
      + intros oc b Hb. cbn beta. destruct (did oc); [|split; reflexivity]. split.
        * apply lookup_i_rm_other; auto.
        * destruct (lookup_i (t_i t) (p_tmp p)); [rewrite lookup_i_cons_other by auto|];
            apply lookup_i_rm_other; auto.
      + split; discriminate.
      + intros ->. reflexivity.
      + intros ->. split; [|reflexivity]. unfold task_inv. cbn. rewrite HT. cbn. rewrite Z.eqb_refl. reflexivity.
      + intros H. exact (proj2 (H (c_nf s) (length (c_tr s)) (t_i t) 0)).
      + destruct (cb_inv _ _ _ _ B) as [_ Hi]. rewrite Hph in Hi. destruct Hi as (d & Hd' & Hft & _).
        cbn. unfold on_temp. rewrite Hd'. rewrite (Hft _ _ HT). discriminate.
  Qed.

  Lemma step_inv s ch : cinv cfg inp pc0 s -> cinv cfg inp pc0 (step cfg inp pl pc0 s ch).
  Proof.
    intros I. unfold step.
    assert (Hfb : cinv cfg inp pc0
                    (if main_blocked s
                     then match first_undone (c_pend s) 0 with Some j => wstep s j | None => mstep s end
                     else mstep s)).
    { destruct (main_blocked s); [|apply main_step_inv; exact I].
      destruct (first_undone (c_pend s) 0); [apply work_step_inv | apply main_step_inv]; exact I. }
    destruct ch as [j|]; [|exact Hfb].
    destruct (nth_error (c_pend s) j) as [t|]; [|exact Hfb].
    destruct (t_done t); [exact Hfb | apply work_step_inv; exact I].
  Qed.

  Lemma run_inv fuel : forall sched s, cinv cfg inp pc0 s -> cinv cfg inp pc0 (run cfg inp pl pc0 fuel sched s).
  Proof.
    induction fuel as [|fuel IH]; intros sched s I; cbn [run]; [exact I|].
    destruct (terminal s); [exact I|].
    destruct sched as [|ch r]; apply IH; apply step_inv; exact I.
  Qed.
