
(* ------------------------------------------------------------------------------------------ *)
(* preservation                                                                               *)
(* ------------------------------------------------------------------------------------------ *)

Section Preservation.
  Variable cfg : rcfg.
  Variable inp : input.
  Variable pl : plan.
  Variable pc0 : pcfg.
  Hypothesis Hpc0 : p_expected pc0 = expected_of inp.
  Hypothesis Hex : expected_of inp <> [].
  (* the mode in which the saver keeps to the protocol: inspected futures, or no thread pool, or no
     failing pooled write *)
  Hypothesis Hmode : r_var cfg = Fixed \/ is_async cfg = false \/ worker_faultless pl.

  Notation cbase := (cbase cfg pc0).
  Notation cpcinv := (cpcinv cfg inp pc0).
  Notation cinvp := (cinvp cfg inp pc0).
  Notation data_inv := (data_inv inp).


  Lemma Hex' : p_expected pc0 <> [].
  Proof. rewrite Hpc0. exact Hex. Qed.

  Lemma sync_no_tasks s p : cbase s p -> is_async cfg = false -> c_pend s = [].
  Proof.
    intros B Ha. destruct (c_pend s) eqn:E; [reflexivity|].
    destruct (cb_async _ _ _ _ B) as [H _]; [rewrite E; discriminate | congruence].
  Qed.

  Lemma single_no_tasks s p : cbase s p -> r_proc cfg = SingleThread -> c_pend s = [].
  Proof. intros B H. apply (sync_no_tasks s p B). unfold is_async. rewrite H. reflexivity. Qed.

  Lemma kill_no_tasks s p : cbase s p -> c_kill s = true -> c_pend s = [].
  Proof.
    intros B Hk. destruct (c_pend s) eqn:E; [reflexivity|].
    destruct (cb_async _ _ _ _ B) as [_ H]; [rewrite E; discriminate | congruence].
  Qed.

  (* a failed pending write exists only where futures are inspected *)
  Lemma failed_task_fixed s p : cbase s p -> existsb t_failed (c_pend s) = true -> r_var cfg = Fixed.
  Proof.
    intros B H. destruct (r_var cfg) eqn:E; [|reflexivity].
    rewrite (cb_pinned _ _ _ _ B E) in H. discriminate.
  Qed.

  Lemma failed_task_pfailed s p : cbase s p -> existsb t_failed (c_pend s) = true -> p_failed p = true.
  Proof.
    intros B H. apply existsb_exists in H as (t & Hin & Hf).
    pose proof (cb_tasks _ _ _ _ B) as Ht. rewrite Forall_forall in Ht. specialize (Ht t Hin).
    unfold task_inv in Ht. unfold t_failed in Hf. destruct (t_st t); try discriminate. exact Ht.
  Qed.

  (* An event of the saver thread: the pending list, exc and kill stay; the monitor moves from p to p'.
     Either there are no pending writes, or the event leaves the monitor's file lists alone. *)
  Lemma cbase_event s p s' p' :
    cbase s p ->
    c_mon s' = Some p' -> Inv pc0 p' (c_fs s') ->
    (p_failed p = true -> p_failed p' = true) ->
    c_exc s' = c_exc s -> c_kill s' = c_kill s -> c_pend s' = c_pend s ->
    (c_pend s = [] \/ (p_tmp p' = p_tmp p /\ p_fin p' = p_fin p)) ->
    cbase s' p'.
  Proof.
    intros B Hm Hi Hf He Hk Hp Hl. destruct B as [Bm Bi Be Bk Bt Bn Ba Bp].
    constructor; rewrite ?He, ?Hk, ?Hp; auto.
    destruct Hl as [Hl|[Hl1 Hl2]]; [rewrite Hl; constructor|].
    rewrite Forall_forall in *. intros t Hin. specialize (Bt t Hin). unfold task_inv in *.
    destruct (t_st t); auto; congruence.
  Qed.

  (* the same state with another program counter *)
  Lemma cbase_set_pc s p x : cbase s p -> cbase (set_pc s x) p.
  Proof. intros [Bm Bi Be Bk Bt Bn Ba Bp]. constructor; cbn; auto. Qed.

  Lemma Inv_event s p o oc f' p' :
    cbase s p -> apply_ev (c_fs s) (o, oc) = Some f' -> pstep pc0 p (o, oc) = Some p' -> Inv pc0 p' f'.
  Proof. intros B Ha Hs. eapply pstep_inv; eauto using Hex', cb_inv. Qed.

  Lemma failed_mono (b : bool) oc : b = true -> b || is_fail oc = true.
  Proof. intros ->. reflexivity. Qed.

  (* --- the exception handler --------------------------------------------------------------- *)
  Lemma handler_inv s p :
    cbase s p -> p_failed p = true ->
    (p_ph p = PhOpen /\ f_final (c_fs s) = None) ->
    open_pc (c_pc s) = true -> c_pc s <> PClose ->
    (c_exc s = true -> c_kill s = true) ->
    (is_async cfg = true -> c_kill s = false -> True) ->
    cinvp (handler cfg inp s) p.
  Proof.
    intros B Hf Hph Hop Hnc Hek _. unfold handler.
    destruct (c_kill s) eqn:Ek.
    - (* inside kill_spies: the failure propagates, the saver stays unclosed *)
      pose proof (kill_no_tasks s p B Ek) as Hpend.
      split; [apply cbase_set_pc; exact B|].
      constructor; cbn; rewrite ?Hpend; cbn; auto; try congruence; try discriminate.
    - destruct (r_proc cfg) eqn:Epr.
      + (* single thread: kill_spies flushes the rechunker and closes *)
        pose proof (single_no_tasks s p B Epr) as Hpend.
        destruct B as [Bm Bi Be Bk Bt Bn Ba Bp].
        split; constructor; cbn; rewrite ?Hpend in *; cbn; auto; try congruence; try discriminate; try contradiction.
      + (* threaded: save_from's except/finally -> close(wait_for=pending) *)
        destruct B as [Bm Bi Be Bk Bt Bn Ba Bp].
        split; constructor; cbn; auto; try congruence; try discriminate.
        * intros H. destruct (Ba H) as [H1 _]. auto.
        * intros _. split; [reflexivity | discriminate].
  Qed.
