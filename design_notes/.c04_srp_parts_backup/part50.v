
  Lemma main_step_inv s : cinv cfg inp pc0 s -> cinv cfg inp pc0 (mstep s).
  Proof.
    intros [p I]. destruct (c_pc s) eqn:Hpc.
    - apply (main_init0 s p I Hpc).
    - apply (main_init1 s p I Hpc).
    - apply (main_init2 s p I Hpc).
    - apply (main_init3 s p I Hpc).
    - apply (main_loop s p I Hpc).
    - apply (main_savew s p n v I Hpc).
    - apply (main_saver s p n I Hpc).
    - apply (main_rec s p n I Hpc).
    - apply (main_check s p I Hpc).
    - apply (main_wait s p I Hpc).
    - apply (main_close s p I Hpc).
    - apply (main_ren s p I Hpc).
    - exists p. unfold main_step. rewrite Hpc. exact I.
    - exists p. unfold main_step. rewrite Hpc. exact I.
  Qed.

  (* --- one operation of a pooled chunk write (strax.io.save_file on a worker thread) ------------- *)
  Lemma In_upd_nth' (l : list task) j t' u : In u (upd_nth l j t') -> u = t' \/ In u l.
  Proof.
    revert j; induction l as [|a l IH]; intros j H; destruct j; cbn in *; auto.
    - destruct H as [->|H]; auto.
    - destruct H as [->|H]; auto. apply IH in H. intuition.
  Qed.

  Lemma chunk_ok_upd p p' pend j t t' i v :
    NoDup (map t_i pend) -> nth_error pend j = Some t -> t_i t' = t_i t -> t_v t' = t_v t ->
    (forall b, b <> t_i t -> lookup_i b (p_fin p') = lookup_i b (p_fin p)) ->
    chunk_ok p pend i v -> chunk_ok p' (upd_nth pend j t') i v.
  Proof.
    intros Hnd Hn Hi Hv Hfin H. unfold chunk_ok in *.
    rewrite (task_for_upd i pend j t t' Hnd Hn Hi).
    destruct (t_i t =? i) eqn:E.
    - apply Z.eqb_eq in E.
      rewrite (task_for_unique i pend t Hnd (nth_error_In _ _ Hn) E) in H. congruence.
    - apply Z.eqb_neq in E. destruct (task_for i pend); [exact H|]. rewrite Hfin by auto. exact H.
  Qed.

  Lemma undone_open s p t : cinvp s p -> In t (c_pend s) -> t_done t = false ->
    open_pc (c_pc s) = true /\ c_pc s <> PClose /\ p_ph p = PhOpen /\ f_final (c_fs s) = None /\
    is_async cfg = true /\ c_kill s = false.
  Proof.
    intros [B C] Hin Hd.
    assert (Hf : forallb t_done (c_pend s) = false).
    { destruct (forallb t_done (c_pend s)) eqn:E; [|reflexivity].
      rewrite (forallb_forall_in _ _ E t Hin) in Hd. discriminate. }
    destruct (cp_undone _ _ _ _ _ C Hf) as [H1 H2].
    destruct (cb_async _ _ _ _ B) as [H3 H4]; [intros E; rewrite E in Hin; destruct Hin|].
    pose proof (cp_phase _ _ _ _ _ C) as Hph. unfold phase_rel in Hph.
    destruct (c_pc s); cbn in H1; try discriminate; destruct Hph; auto 10.
  Qed.

  Lemma worker_event s p j t o s' ok tmp' fin' t' :
    cinvp s p -> nth_error (c_pend s) j = Some t -> t_done t = false ->
    (forall oc, pstep pc0 p (o, oc) = Some (mkPst PhOpen (p_failed p || is_fail oc) (tmp' oc) (fin' oc))) ->
    (forall oc b, b <> t_i t -> lookup_i b (tmp' oc) = lookup_i b (p_tmp p) /\ lookup_i b (fin' oc) = lookup_i b (p_fin p)) ->
    (o <> ORmFinal /\ o <> ORenameDir) ->
    do_op pl pc0 s o = (s', ok) ->
    t_i t' = t_i t -> t_v t' = t_v t -> (ok = false -> t_st t' = TFail) ->
    (ok = true -> task_inv (mkPst PhOpen (p_failed p || false) (tmp' Done) (fin' Done)) t' /\ t_failed t' = false) ->
    (worker_faultless pl -> pl (c_nf s) (length (c_tr s)) o = None) ->
    apply_done (c_fs s) o <> None ->
    exists p', cinvp (set_pend s' (upd_nth (c_pend s') j t')) p'.
  Proof.
    intros I Hn Hd Hps Hoth [Ho1 Ho2] Ed Hti Htv Hfail Hokt Hwf Happ.
    pose proof I as [B C].
    pose proof (nth_error_In _ _ Hn) as Hin.
    destruct (undone_open s p t I Hin Hd) as (Hop & Hnc & Hph & Hfin & Hasy & Hkf).
    doop Ed. rewrite (cb_mon _ _ _ _ B), (Hps oc) in Hmon.
    set (p' := mkPst PhOpen (p_failed p || is_fail oc) (tmp' oc) (fin' oc)) in *.
    assert (HI : Inv pc0 p' f') by (eapply Inv_event; eauto).
    assert (Hfin' : f_final f' = None) by (rewrite (final_kept _ _ _ _ Ha); auto).
    (* in a mode where the saver keeps to the protocol a failing pooled write is looked at *)
    assert (Hfixed : ok = false -> r_var cfg = Fixed).
    { intros ->. destruct Hmode as [H|[H|H]]; [exact H | congruence |].
      exfalso. specialize (Hok3 (Hwf H) Happ). discriminate. }
    assert (Hnft : t_failed t = false) by (unfold t_done in Hd; unfold t_failed; destruct (t_st t); auto; discriminate).
    assert (Hft' : t_failed t' = negb ok).
    { destruct ok; cbn; [apply (Hokt eq_refl) | unfold t_failed; rewrite (Hfail eq_refl); reflexivity]. }
    exists p'. split.
    - (* cbase *)
      destruct B as [Bm Bi Be Bk Bt Bn Ba Bp].
      constructor; cbn [set_pend c_pend c_mon c_fs c_exc c_kill]; rewrite ?Hpend, ?Hexc, ?Hkill, ?Hfs; auto.
      + intros He. cbn. rewrite (Be He). reflexivity.
      + eapply (Forall_upd_nth_other (task_inv p) (task_inv p')); eauto.
        * intros u Hu Hne Hu2. unfold task_inv in *. destruct (Hoth oc (t_i u) Hne) as [H1 H2].
          unfold p'. cbn [p_tmp p_fin p_failed].
          destruct (t_st u); [exact Logic.I | rewrite H1; exact Hu2 | rewrite H2; exact Hu2 | rewrite Hu2; reflexivity].
        * destruct ok.
          -- assert (oc = Done) by auto; subst oc. exact (proj1 (Hokt eq_refl)).
          -- unfold task_inv. rewrite (Hfail eq_refl). cbn. rewrite (Hok2 eq_refl). apply Bool.orb_true_r.
      + rewrite (map_upd_nth_id _ j t t' Hn Hti). exact Bn.
      + intros Hv. rewrite (existsb_upd_nth t_failed _ j t t' Hn Hnft), (Bp Hv), Hft'. cbn.
        destruct ok; [reflexivity|]. rewrite (Hfixed eq_refl) in Hv. discriminate.
    - (* the part that mentions the program counter: it has not moved *)
      constructor; cbn [set_pend c_pc c_pend c_fs c_exc c_kill c_i c_todo c_rec]; rewrite ?Hpc', ?Hpend, ?Hexc, ?Hkill, ?Hfs.
      + unfold phase_rel. cbn [set_pend c_pc c_fs c_pend c_rec c_exc]. rewrite Hpc', Hfs.
        destruct (c_pc s); cbn in Hop; try discriminate; split; auto.
      + apply (cp_nosync _ _ _ _ _ C).
      + intros _. split; [exact Hop | exact Hnc].
      + intros H. contradiction.
      + apply (cp_excpc _ _ _ _ _ C).
      + intros Hna Hpf. cbn in Hpf.
        rewrite (existsb_upd_nth t_failed _ j t t' Hn Hnft), Hft'.
        destruct ok.
        * assert (oc = Done) by auto; subst oc. cbn in Hpf. rewrite Bool.orb_false_r in Hpf.
          destruct (cp_J _ _ _ _ _ C Hna Hpf) as [H|[H1 H2]]; [left; exact H | right].
          split; [exact H1 | rewrite H2; reflexivity].
        * right. split; [apply Hfixed; reflexivity | apply Bool.orb_true_r].
      + intros He Hna.
        destruct (cp_data _ _ _ _ _ C He Hna) as (dn & cur & Hx & Hr & Hc & Hlt & Hch & Ht).
        assert (Hck : forall i v, chunk_ok p (c_pend s) i v -> chunk_ok p' (upd_nth (c_pend s) j t') i v).
        { intros i v. apply (chunk_ok_upd p p' (c_pend s) j t t' i v); auto; [apply (cb_nodup _ _ _ _ B)|].
          intros b Hb. apply (Hoth oc b Hb). }
        exists dn, cur. cbn [set_pend c_pc c_pend c_fs c_exc c_kill c_i c_todo c_rec].
        rewrite ?Hpc', ?Hpend, ?Hi, ?Htd, ?Hrec.
        split; [exact Hx|]. split; [exact Hr|]. split.
        { unfold cur_ok in *. cbn [set_pend c_pc c_pend c_i c_todo]. rewrite Hpc', ?Hpend, ?Hi, ?Htd.
          pose proof (cp_nosync _ _ _ _ _ C Hasy Hkf) as Hns.
          destruct (c_pc s); auto; try contradiction.
          destruct Hc as (v & Hc1 & Hc2). exists v. split; [exact Hc1|]. intros Hn0. apply Hck. auto. }
        split; [exact Hlt|]. split.
        { intros i n v Hi' Hn0. apply Hck. eapply Hch; eauto. }
        intros u Hu. apply In_upd_nth' in Hu as [->|Hu]; [rewrite Hti; apply (Ht t Hin) | apply (Ht u Hu)].
  Qed.
