
(* ------------------------------------------------------------------------------------------ *)
(* the invariant of the machine                                                               *)
(* ------------------------------------------------------------------------------------------ *)

Definition task_for (i : Z) (l : list task) : option task := List.find (fun t => t_i t =? i) l.

(* chunk i with payload v is where it should be: in the hands of its pending write, else a final-named file *)
Definition chunk_ok (p : pst) (pend : list task) (i v : Z) : Prop :=
  match task_for i pend with
  | Some t => t_v t = v
  | None => lookup_i i (p_fin p) = Some v
  end.

Definition open_pc (x : pc) : bool :=
  match x with PLoop | PSaveW _ _ | PSaveR _ | PRec _ | PCheck | PWait | PClose => true | _ => false end.

Section Inv.
  Variable cfg : rcfg.
  Variable inp : input.
  Variable pl : plan.
  Variable pc0 : pcfg.
  Let ex := expected_of inp.

  (* what the monitor state and the file system look like at each program point *)
  Definition phase_rel (s : cst) (p : pst) : Prop :=
    match c_pc s with
    | PInit0 => c_pend s = [] /\ p_ph p = PhInit /\ (f_final (c_fs s) <> None -> p_allow_rm pc0 = true)
    | PInit1 => c_pend s = [] /\ p_ph p = PhInit /\ f_final (c_fs s) = None
    | PInit2 => c_pend s = [] /\ p_ph p = PhInit /\ f_final (c_fs s) = None /\ f_temp (c_fs s) = None
    | PInit3 => c_pend s = [] /\ p_ph p = PhOpen /\ f_final (c_fs s) = None
    | PLoop | PSaveW _ _ | PSaveR _ | PRec _ | PCheck | PWait | PClose => p_ph p = PhOpen /\ f_final (c_fs s) = None
    | PRen => p_ph p = PhClosing /\ f_final (c_fs s) = None /\
              exists d, f_temp (c_fs s) = Some d /\ dlookup d FMeta = Some (CMeta (Some (mkMeta (c_rec s) true (c_exc s))))
    | PEnd => exists d, f_final (c_fs s) = Some d /\ dlookup d FMeta = Some (CMeta (Some (mkMeta (c_rec s) true (c_exc s))))
    | PAbort => True
    end.

  Definition task_inv (p : pst) (t : task) : Prop :=
    match t_st t with
    | TNew => True
    | TWritten => lookup_i (t_i t) (p_tmp p) = Some (t_v t)
    | TOk => lookup_i (t_i t) (p_fin p) = Some (t_v t)
    | TFail => p_failed p = true
    end.

  (* the chunk being saved right now *)
  Definition cur_ok (s : cst) (p : pst) (cur : list (Z * Z)) : Prop :=
    match c_pc s with
    | PSaveW n v => cur = [(n, v)] /\ n <> 0
    | PSaveR n => exists v, cur = [(n, v)] /\ n <> 0 /\ lookup_i (c_i s) (p_tmp p) = Some v
    | PRec n => exists v, cur = [(n, v)] /\ (n <> 0 -> chunk_ok p (c_pend s) (c_i s) v)
    | PWait | PClose | PRen | PEnd => cur = [] /\ c_todo s = []
    | _ => cur = []
    end.

  (* while no exception is being handled: the chunks saved so far are a prefix of the complete save and
     each of them is where it should be *)
  Definition data_inv (s : cst) (p : pst) : Prop :=
    exists dn cur,
      ex = dn ++ number_from (c_i s) (cur ++ c_todo s) /\
      c_rec s = infos dn /\
      cur_ok s p cur /\
      (forall i n v, In (i, n, v) dn -> i < c_i s) /\
      (forall i n v, In (i, n, v) dn -> n <> 0 -> chunk_ok p (c_pend s) i v) /\
      (forall t, In t (c_pend s) -> t_i t < c_i s \/ (t_i t = c_i s /\ exists n, c_pc s = PRec n)).

