
  (* --- waiting for / looking at the pending futures --------------------------------------------- *)
  Lemma main_wait s p : cinvp s p -> c_pc s = PWait -> exists p', cinvp (mstep s) p'.
  Proof.
    intros I Hpc. pose proof I as [B C]. unfold main_step. rewrite Hpc.
    pose proof (cp_phase _ _ _ _ _ C) as Hph. unfold phase_rel in Hph. rewrite Hpc in Hph.
    destruct (forallb t_done (c_pend s)) eqn:Hdone; [|exists p; exact I].
    assert (Hmove : existsb t_failed (c_pend s) = false -> cinvp (set_pc s PClose) p).
    { intros Hnf.
      apply (cpc_move s p s p PClose I B eq_refl eq_refl eq_refl eq_refl eq_refl eq_refl eq_refl eq_refl).
      - rewrite Hpc; discriminate.
      - exact Hph.
      - rewrite Hpc; discriminate.
      - discriminate.
      - intros _. left. rewrite Hpc. reflexivity.
      - rewrite Hdone. discriminate.
      - rewrite Hnf. discriminate.
      - intros _. right. constructor. }
    exists p. destruct (r_var cfg) eqn:Ev.
    - apply Hmove. apply (cb_pinned _ _ _ _ B Ev).
    - destruct (existsb t_failed (c_pend s)) eqn:Hf; [|apply Hmove; reflexivity].
      pose proof (failed_task_pfailed s p B Hf) as Hpf.
      destruct B as [Bm Bi Be Bk Bt Bn Ba Bp].
      split; constructor; cbn; auto; try discriminate.
      + intros Hk. split; [reflexivity | apply (Bk Hk)].
      + rewrite Hdone. discriminate.
  Qed.

  Lemma Forall_filter (P : task -> Prop) f l : Forall P l -> Forall P (filter f l).
  Proof. rewrite !Forall_forall. intros H t Hin. apply filter_In in Hin as [Hin _]. auto. Qed.

  Lemma existsb_filter_false (g f : task -> bool) l : existsb g l = false -> existsb g (filter f l) = false.
  Proof.
    intros H. destruct (existsb g (filter f l)) eqn:E; [|reflexivity].
    apply existsb_exists in E as (t & Hin & Hg). apply filter_In in Hin as [Hin _].
    rewrite (existsb_false_in _ _ H t Hin) in Hg. discriminate.
  Qed.

  Lemma chunk_ok_filter s p i v :
    cbase s p -> existsb t_failed (c_pend s) = false ->
    chunk_ok p (c_pend s) i v -> chunk_ok p (filter (fun t => negb (t_done t)) (c_pend s)) i v.
  Proof.
    intros B Hnf H. unfold chunk_ok in *.
    destruct (task_for i (c_pend s)) as [t|] eqn:Et.
    - destruct (task_for_In _ _ _ Et) as [Hin Hti].
      destruct (t_done t) eqn:Hd.
      + (* the write is finished and successful: the file has its final name *)
        rewrite (task_for_filter_none i (c_pend s)).
        * pose proof (cb_tasks _ _ _ _ B) as HT. rewrite Forall_forall in HT. specialize (HT t Hin).
          pose proof (existsb_false_in _ _ Hnf t Hin) as Hf.
          unfold task_inv in HT. unfold t_done in Hd. unfold t_failed in Hf.
          destruct (t_st t); try discriminate. rewrite Hti, H in HT. exact HT.
        * intros u Hu Hui.
          assert (task_for i (c_pend s) = Some u) by (apply task_for_unique; auto; apply (cb_nodup _ _ _ _ B)).
          assert (u = t) by congruence. subst u. rewrite Hd. reflexivity.
      + rewrite (task_for_filter_keep i (c_pend s) _ t Et); [exact H | rewrite Hd; reflexivity].
    - rewrite (task_for_filter_none i (c_pend s)); [exact H|].
      intros u Hu Hui. exfalso. apply (task_for_None _ _ Et u Hu Hui).
  Qed.

  Lemma check_filter s p :
    cinvp s p -> c_pc s = PCheck -> existsb t_failed (c_pend s) = false ->
    cinvp (set_pc (set_pend s (filter (fun t => negb (t_done t)) (c_pend s))) PLoop) p.
  Proof.
    intros [B C] Hpc Hnf.
    pose proof (cp_phase _ _ _ _ _ C) as Hph. unfold phase_rel in Hph. rewrite Hpc in Hph.
    assert (Hek : c_exc s = true -> c_kill s = true).
    { intros He. destruct (cp_excpc _ _ _ _ _ C He) as [H|H]; [exact H | rewrite Hpc in H; destruct H]. }
    split.
    - destruct B as [Bm Bi Be Bk Bt Bn Ba Bp]. constructor; cbn; auto.
      + apply Forall_filter; exact Bt.
      + apply NoDup_map_filter; exact Bn.
      + intros H. apply Ba. intros E. rewrite E in H. apply H. reflexivity.
      + intros _. apply existsb_filter_false; exact Hnf.
    - constructor; cbn [set_pc set_pend c_pc c_pend c_exc c_kill c_fs c_i c_todo c_rec].
      + exact Hph.
      + auto.
      + intros _. split; [reflexivity | discriminate].
      + discriminate.
      + intros He. left. auto.
      + intros H1 H2. destruct (cp_J _ _ _ _ _ C) as [H|[_ H]]; auto; [rewrite Hpc; discriminate | congruence].
      + intros He _. destruct (cp_data _ _ _ _ _ C He) as (dn & cur & Hx & Hr & Hc & Hlt & Hch & Ht); [rewrite Hpc; discriminate|].
        unfold cur_ok in Hc. rewrite Hpc in Hc. subst cur.
        exists dn, []. cbn [set_pc set_pend c_pc c_pend c_exc c_kill c_fs c_i c_todo c_rec].
        split; [exact Hx|]. split; [exact Hr|]. split; [reflexivity|]. split; [exact Hlt|]. split.
        * intros i n v Hin Hn. apply chunk_ok_filter; [exact B | exact Hnf | exact (Hch i n v Hin Hn)].
        * intros t Hin. apply filter_In in Hin as [Hin _]. destruct (Ht t Hin) as [H|[_ [n H]]]; [left; exact H|].
          rewrite Hpc in H. discriminate.
  Qed.

  Lemma main_check s p : cinvp s p -> c_pc s = PCheck -> exists p', cinvp (mstep s) p'.
  Proof.
    intros I Hpc. pose proof I as [B C]. unfold main_step. rewrite Hpc.
    pose proof (cp_phase _ _ _ _ _ C) as Hph. unfold phase_rel in Hph. rewrite Hpc in Hph.
    exists p. destruct (r_var cfg) eqn:Ev.
    - apply check_filter; auto. apply (cb_pinned _ _ _ _ B Ev).
    - destruct (existsb t_failed (c_pend s)) eqn:Hf; [|apply check_filter; auto].
      apply handler_inv; auto.
      + apply (failed_task_pfailed s p B Hf).
      + rewrite Hpc; reflexivity.
      + rewrite Hpc; discriminate.
      + intros He. destruct (cp_excpc _ _ _ _ _ C He) as [H|H]; [exact H | rewrite Hpc in H; destruct H].
  Qed.
