  (* the part of the invariant that does not mention the program counter *)
  Record cbase (s : cst) (p : pst) : Prop := mkCbase {
    cb_mon : c_mon s = Some p;
    cb_inv : Inv pc0 p (c_fs s);
    cb_exc : c_exc s = true -> p_failed p = true;
    cb_kill : c_kill s = true -> c_exc s = true /\ r_proc cfg = SingleThread;
    cb_tasks : Forall (task_inv p) (c_pend s);
    cb_nodup : NoDup (map t_i (c_pend s));
    cb_async : c_pend s <> [] -> is_async cfg = true /\ c_kill s = false;
    cb_pinned : r_var cfg = Pinned -> existsb t_failed (c_pend s) = false
  }.

  (* the part that does *)
  Record cpcinv (s : cst) (p : pst) : Prop := mkCpc {
    cp_phase : phase_rel s p;
    cp_nosync : is_async cfg = true -> c_kill s = false ->
                match c_pc s with PSaveW _ _ | PSaveR _ => False | _ => True end;
    cp_undone : forallb t_done (c_pend s) = false -> open_pc (c_pc s) = true /\ c_pc s <> PClose;
    cp_closefail : c_pc s = PClose -> existsb t_failed (c_pend s) = true -> c_exc s = true;
    cp_excpc : c_exc s = true -> c_kill s = true \/
               match c_pc s with PWait | PClose | PRen | PEnd | PAbort => True | _ => False end;
    cp_J : c_pc s <> PAbort -> p_failed p = true ->
           c_exc s = true \/ (r_var cfg = Fixed /\ existsb t_failed (c_pend s) = true);
    cp_data : c_exc s = false -> c_pc s <> PAbort -> data_inv s p
  }.

  Definition cinvp (s : cst) (p : pst) : Prop := cbase s p /\ cpcinv s p.
  Definition cinv (s : cst) : Prop := exists p, cinvp s p.
End Inv.
