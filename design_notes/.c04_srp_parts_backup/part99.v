End Preservation.
