
  (* --- moving to program point x after an event (or none) that saves no chunk ------------------- *)
  Definition waitset (x : pc) : Prop := match x with PWait | PClose | PRen | PEnd | PAbort => True | _ => False end.

  Lemma cpc_move s p s' p' x :
    cinvp s p -> cbase s' p' ->
    c_i s' = c_i s -> c_todo s' = c_todo s -> c_rec s' = c_rec s -> c_pend s' = c_pend s ->
    c_exc s' = c_exc s -> c_kill s' = c_kill s ->
    p_failed p' = p_failed p -> p_fin p' = p_fin p ->
    c_pc s <> PAbort ->
    phase_rel pc0 (set_pc s' x) p' ->
    cur_class (c_pc s) <> 0%nat -> cur_class x <> 0%nat ->
    (cur_class x = 2%nat -> cur_class (c_pc s) = 2%nat \/ c_todo s = []) ->
    (forallb t_done (c_pend s) = false -> open_pc x = true /\ x <> PClose) ->
    (x = PClose -> existsb t_failed (c_pend s) = true -> c_exc s = true) ->
    (c_exc s = true -> c_kill s = true \/ waitset x) ->
    cinvp (set_pc s' x) p'.
  Proof.
    intros [B C] B' Hi Htd Hrc Hp He Hk Hf Hfin Hna Hph C1 C2 C3 Hund Hcf Hex2.
    split; [apply cbase_set_pc; exact B'|].
    constructor; cbn [set_pc c_pc c_pend c_exc c_kill c_fs c_i c_todo c_rec]; rewrite ?Hp, ?He, ?Hk.
    - exact Hph.
    - intros _ _. destruct x; cbn in C2; auto; apply C2; reflexivity.
    - exact Hund.
    - exact Hcf.
    - intros He1. destruct (Hex2 He1) as [H|H]; [left; exact H | right]. destruct x; cbn in H; auto.
    - intros _ Hpf. rewrite Hf in Hpf. exact (cp_J _ _ _ _ _ C Hna Hpf).
    - intros He1 _. pose proof (cp_data _ _ _ _ _ C He1 Hna) as D.
      eapply (data_inv_carry s p (set_pc s' x) p'); eauto.
  Qed.
