
  (* --- carrying data_inv across steps that do not save a chunk -------------------------------- *)
  Definition cur_class (x : pc) : nat :=
    match x with
    | PSaveW _ _ | PSaveR _ | PRec _ => 0
    | PWait | PClose | PRen | PEnd => 2
    | _ => 1
    end.

  Lemma chunk_ok_fin p p' pend i v : p_fin p' = p_fin p -> chunk_ok p pend i v -> chunk_ok p' pend i v.
  Proof. unfold chunk_ok. intros ->. auto. Qed.

  Lemma data_inv_carry s p s' p' :
    data_inv s p ->
    c_i s' = c_i s -> c_todo s' = c_todo s -> c_rec s' = c_rec s -> c_pend s' = c_pend s ->
    p_fin p' = p_fin p ->
    cur_class (c_pc s) <> 0%nat -> cur_class (c_pc s') <> 0%nat ->
    (cur_class (c_pc s') = 2%nat -> cur_class (c_pc s) = 2%nat \/ c_todo s = []) ->
    data_inv s' p'.
  Proof.
    intros (dn & cur & He & Hr & Hc & Hlt & Hch & Ht) Hi Htd Hrc Hp Hf C1 C2 C3.
    assert (Hcur : cur = [] /\ (cur_class (c_pc s) = 2%nat -> c_todo s = [])).
    { unfold cur_ok in Hc. destruct (c_pc s); cbn in C1; try (exfalso; apply C1; reflexivity);
        intuition (try discriminate; try congruence). }
    destruct Hcur as [-> Htd2].
    exists dn, []. rewrite Hi, Htd, Hrc, Hp. repeat split; auto.
    - unfold cur_ok. destruct (c_pc s') eqn:E; cbn in C2, C3; try contradiction; auto; split; auto;
        rewrite Htd; destruct C3 as [C3|C3]; auto.
    - intros i n v Hin Hn. eapply chunk_ok_fin; eauto.
    - intros t Hin. destruct (Ht t Hin) as [H|[H1 [n H2]]]; [left; exact H|].
      rewrite H2 in C1. cbn in C1. contradiction.
  Qed.

  (* --- FileSaver.__init__ ------------------------------------------------------------------- *)
  Lemma init_pend_done s p : cinvp s p -> open_pc (c_pc s) = false -> forallb t_done (c_pend s) = true.
  Proof.
    intros [_ C] H. destruct (forallb t_done (c_pend s)) eqn:E; [reflexivity|].
    destruct (cp_undone _ _ _ _ _ C E) as [H1 _]. congruence.
  Qed.

  (* an aborted run keeps the base invariant; nothing else is claimed *)
  Lemma abort_inv s p : cbase s p -> forallb t_done (c_pend s) = true -> cinvp (set_pc s PAbort) p.
  Proof.
    intros B Hd. split; [apply cbase_set_pc; exact B|].
    constructor; cbn; auto; try congruence; try discriminate; try contradiction.
  Qed.
