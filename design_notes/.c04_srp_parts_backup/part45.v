
  (* --- Saver.close ---------------------------------------------------------------------------- *)
  Lemma forallb_forall_in (f : task -> bool) l : forallb f l = true -> forall t, In t l -> f t = true.
  Proof. intros H. apply forallb_forall. exact H. Qed.

  Lemma existsb_false_in (f : task -> bool) l : existsb f l = false -> forall t, In t l -> f t = false.
  Proof.
    intros H t Hin. destruct (f t) eqn:E; [|reflexivity].
    assert (existsb f l = true) by (apply existsb_exists; eauto). congruence.
  Qed.

  Lemma closing_guard s p : cinvp s p -> c_pc s = PClose ->
    closing_ok pc0 p (mkMeta (c_rec s) true (c_exc s)) = true.
  Proof.
    intros [B C] Hpc. unfold closing_ok. cbn [m_exc m_chunks].
    apply Bool.andb_true_iff. split.
    - destruct (p_failed p) eqn:Ef; [cbn|reflexivity].
      destruct (cp_J _ _ _ _ _ C) as [H|[_ H]]; auto; [rewrite Hpc; discriminate|].
      apply (cp_closefail _ _ _ _ _ C Hpc H).
    - destruct (c_exc s) eqn:Ee; [reflexivity|]. cbn.
      destruct (cp_data _ _ _ _ _ C Ee) as (dn & cur & He & Hr & Hc & Hlt & Hch & Ht); [rewrite Hpc; discriminate|].
      unfold cur_ok in Hc. rewrite Hpc in Hc. destruct Hc as [-> Htd]. rewrite Htd in He. cbn in He.
      rewrite app_nil_r in He. rewrite Hpc0, He.
      assert (Hdone : forallb t_done (c_pend s) = true).
      { destruct (forallb t_done (c_pend s)) eqn:E; [reflexivity|].
        destruct (cp_undone _ _ _ _ _ C E) as [_ H]. contradiction. }
      assert (Hnf : existsb t_failed (c_pend s) = false).
      { destruct (existsb t_failed (c_pend s)) eqn:E; [|reflexivity].
        rewrite (cp_closefail _ _ _ _ _ C Hpc E) in Ee. discriminate. }
      apply Bool.andb_true_iff. split; [apply list_eqb_pair_eq; exact Hr|].
      unfold all_final. apply forallb_forall. intros [[i n] v] Hin. cbn.
      destruct (n =? 0) eqn:En; [reflexivity|]. cbn. apply mem_iv_true.
      apply Z.eqb_neq in En. specialize (Hch i n v Hin En). unfold chunk_ok in Hch.
      destruct (task_for i (c_pend s)) as [t|] eqn:Et; [|exact Hch].
      destruct (task_for_In _ _ _ Et) as [Hint Hti].
      pose proof (forallb_forall_in _ _ Hdone t Hint) as Hd.
      pose proof (existsb_false_in _ _ Hnf t Hint) as Hf.
      pose proof (cb_tasks _ _ _ _ B) as HT. rewrite Forall_forall in HT. specialize (HT t Hint).
      unfold task_inv in HT. unfold t_done in Hd. unfold t_failed in Hf.
      destruct (t_st t); try discriminate. rewrite Hti, Hch in HT. exact HT.
  Qed.

  Lemma main_close s p : cinvp s p -> c_pc s = PClose -> exists p', cinvp (mstep s) p'.
  Proof.
    intros I Hpc. pose proof I as [B C]. unfold main_step. rewrite Hpc.
    pose proof (cp_phase _ _ _ _ _ C) as Hph. unfold phase_rel in Hph. rewrite Hpc in Hph.
    destruct Hph as (Hph & Hfin).
    assert (Hdone : forallb t_done (c_pend s) = true).
    { destruct (forallb t_done (c_pend s)) eqn:E; [reflexivity|].
      destruct (cp_undone _ _ _ _ _ C E) as [_ H]. contradiction. }
    destruct (do_op pl pc0 s (OWriteMeta (mkMeta (c_rec s) true (c_exc s)))) as [s' ok] eqn:Ed.
    pose proof (closing_guard s p I Hpc) as Hg.
    destruct (main_event s p _ s' ok (fun oc => match oc with Done => PhClosing | Failed _ => PhOpen end)
                (fun _ => p_tmp p) (fun _ => p_fin p) I
                (fun oc => pstep_meta_closing pc0 p (mkMeta (c_rec s) true (c_exc s)) oc Hph eq_refl Hg)
                (or_intror (fun _ => conj eq_refl eq_refl)) Ed)
      as (oc & B' & Ha & Hpc' & Htd & Hi & Hrec & Hpend & Hexc & Hkill & Hok1 & Hok2 & _).
    destruct ok.
    - assert (oc = Done) by auto; subst oc. eexists.
      eapply (cpc_move s p s'); eauto; try (rewrite Hpc; cbn; try discriminate; auto; fail).
      + cbn. apply Bool.orb_false_r.
      + unfold phase_rel. cbn. split; [reflexivity|].
        split; [rewrite (final_kept _ _ _ _ Ha); [exact Hfin | discriminate | discriminate]|].
        cbn in Ha. unfold on_temp in Ha. destruct (f_temp (c_fs s)) as [d|]; [|discriminate].
        inversion Ha as [Hfs]. cbn. eexists. split; [reflexivity|].
        rewrite Hrec, Hexc. apply dlookup_dinsert_same.
      + discriminate.
      + rewrite Hdone. discriminate.
      + discriminate.
      + intros _. right. constructor.
    - eexists. apply abort_inv; [exact B' | rewrite Hpend; exact Hdone].
  Qed.

  Lemma main_ren s p : cinvp s p -> c_pc s = PRen -> exists p', cinvp (mstep s) p'.
  Proof.
    intros I Hpc. pose proof I as [B C]. unfold main_step. rewrite Hpc.
    pose proof (cp_phase _ _ _ _ _ C) as Hph. unfold phase_rel in Hph. rewrite Hpc in Hph.
    destruct Hph as (Hph & Hfin & d & Htemp & Hmeta).
    assert (Hdone : forallb t_done (c_pend s) = true) by (apply (init_pend_done s p I); rewrite Hpc; reflexivity).
    destruct (do_op pl pc0 s ORenameDir) as [s' ok] eqn:Ed.
    destruct (main_event s p _ s' ok (fun oc => if did oc then PhDone else PhClosing)
                (fun _ => p_tmp p) (fun _ => p_fin p) I
                (fun oc => pstep_rendir pc0 p oc Hph)
                (or_intror (fun _ => conj eq_refl eq_refl)) Ed)
      as (oc & B' & Ha & Hpc' & Htd & Hi & Hrec & Hpend & Hexc & Hkill & Hok1 & Hok2 & _).
    destruct ok.
    - assert (oc = Done) by auto; subst oc. eexists.
      eapply (cpc_move s p s'); eauto; try (rewrite Hpc; cbn; try discriminate; auto; fail).
      + cbn. apply Bool.orb_false_r.
      + unfold phase_rel. cbn. cbn in Ha. rewrite Htemp, Hfin in Ha. inversion Ha as [Hfs]. cbn.
        exists d. rewrite Hrec, Hexc. auto.
      + discriminate.
      + rewrite Hdone. discriminate.
      + discriminate.
      + intros _. right. constructor.
    - eexists. apply abort_inv; [exact B' | rewrite Hpend; exact Hdone].
  Qed.
