
  (* the common part of every saver-thread event: either no writes are pending, or the event leaves the
     monitor's file lists alone *)
  Lemma main_event_b s p o s' ok ph' fl' tmp' fin' :
    cbase s p ->
    (forall oc, pstep pc0 p (o, oc) = Some (mkPst (ph' oc) (fl' oc) (tmp' oc) (fin' oc))) ->
    (forall oc, p_failed p = true -> fl' oc = true) ->
    (c_pend s = [] \/ (forall oc, tmp' oc = p_tmp p /\ fin' oc = p_fin p)) ->
    do_op pl pc0 s o = (s', ok) ->
    exists oc,
      let p' := mkPst (ph' oc) (fl' oc) (tmp' oc) (fin' oc) in
      cbase s' p' /\ apply_ev (c_fs s) (o, oc) = Some (c_fs s') /\
      c_pc s' = c_pc s /\ c_todo s' = c_todo s /\ c_i s' = c_i s /\ c_rec s' = c_rec s /\
      c_pend s' = c_pend s /\ c_exc s' = c_exc s /\ c_kill s' = c_kill s /\
      (ok = true -> oc = Done) /\ (ok = false -> is_fail oc = true) /\
      (pl (c_nf s) (length (c_tr s)) o = None -> apply_done (c_fs s) o <> None -> ok = true).
  Proof.
    intros B Hps Hfl Hl Ed. doop Ed. exists oc. cbn zeta.
    rewrite (cb_mon _ _ _ _ B), (Hps oc) in Hmon.
    assert (HI : Inv pc0 (mkPst (ph' oc) (fl' oc) (tmp' oc) (fin' oc)) f')
      by (eapply Inv_event; eauto).
    subst f'. split; [|repeat split; auto].
    apply (cbase_event s p s' _ B Hmon); auto; [apply Hfl|].
    destruct Hl as [Hl|Hl]; [left; exact Hl | right; apply Hl].
  Qed.

  Lemma main_event s p o s' ok ph' tmp' fin' :
    cinvp s p ->
    (forall oc, pstep pc0 p (o, oc) = Some (mkPst (ph' oc) (p_failed p || is_fail oc) (tmp' oc) (fin' oc))) ->
    (c_pend s = [] \/ (forall oc, tmp' oc = p_tmp p /\ fin' oc = p_fin p)) ->
    do_op pl pc0 s o = (s', ok) ->
    exists oc,
      let p' := mkPst (ph' oc) (p_failed p || is_fail oc) (tmp' oc) (fin' oc) in
      cbase s' p' /\ apply_ev (c_fs s) (o, oc) = Some (c_fs s') /\
      c_pc s' = c_pc s /\ c_todo s' = c_todo s /\ c_i s' = c_i s /\ c_rec s' = c_rec s /\
      c_pend s' = c_pend s /\ c_exc s' = c_exc s /\ c_kill s' = c_kill s /\
      (ok = true -> oc = Done) /\ (ok = false -> is_fail oc = true) /\
      (pl (c_nf s) (length (c_tr s)) o = None -> apply_done (c_fs s) o <> None -> ok = true).
  Proof.
    intros [B C] Hps Hl Ed.
    apply (main_event_b s p o s' ok ph' (fun oc => p_failed p || is_fail oc) tmp' fin' B Hps); auto.
    intros oc. apply failed_mono.
  Qed.

  Lemma excpc_init s p : cpcinv s p -> open_pc (c_pc s) = false -> c_pc s <> PRen -> c_pc s <> PEnd -> c_pc s <> PAbort ->
    c_exc s = true -> c_kill s = true.
  Proof.
    intros C H1 H2 H3 H4 He. destruct (cp_excpc _ _ _ _ _ C He) as [H|H]; [exact H|].
    destruct (c_pc s); cbn in *; try discriminate; try contradiction; destruct H.
  Qed.

  (* FileSaver.__init__: rmtree of the old directory *)
  Lemma main_init0 s p : cinvp s p -> c_pc s = PInit0 -> exists p', cinvp (mstep s) p'.
  Proof.
    intros I Hpc. pose proof I as [B C]. unfold main_step. rewrite Hpc.
    pose proof (cp_phase _ _ _ _ _ C) as Hph. unfold phase_rel in Hph. rewrite Hpc in Hph.
    destruct Hph as (Hp0 & Hph & Hal).
    assert (Hek : c_exc s = true -> c_kill s = true)
      by (apply (excpc_init s p C); rewrite Hpc; cbn; auto; discriminate).
    destruct (f_final (c_fs s)) as [d|] eqn:Ef.
    - destruct (do_op pl pc0 s ORmFinal) as [s' ok] eqn:Ed.
      assert (Hal' : p_allow_rm pc0 = true) by (apply Hal; discriminate).
      destruct (main_event s p ORmFinal s' ok (fun _ => PhInit) (fun _ => p_tmp p) (fun _ => p_fin p) I
                  (fun oc => pstep_rmfinal pc0 p oc Hph Hal') (or_introl Hp0) Ed)
        as (oc & B' & Ha & Hpc' & Htd & Hi & Hrec & Hpend & Hexc & Hkill & Hok1 & Hok2 & _).
      destruct ok.
      + assert (oc = Done) by auto; subst oc. eexists.
        assert (Hf' : c_fs s' = mkFs (f_temp (c_fs s)) None) by (cbn in Ha; rewrite Ef in Ha; inversion Ha; reflexivity).
        eapply (cpc_move s p s'); eauto; try (rewrite Hpc; cbn; try discriminate; auto; fail).
        * cbn. apply Bool.orb_false_r.
        * unfold phase_rel. cbn. rewrite Hf', Hpend. cbn. auto.
        * discriminate.
        * rewrite Hp0. discriminate.
        * discriminate.
      + eexists. apply abort_inv; [exact B' | rewrite Hpend, Hp0; reflexivity].
    - exists p. eapply (cpc_move s p s p); eauto; try (rewrite Hpc; cbn; try discriminate; auto; fail).
      + unfold phase_rel. cbn. auto.
      + discriminate.
      + rewrite Hp0. discriminate.
      + discriminate.
  Qed.

  (* FileSaver.__init__: rmtree of an old temp directory *)
  Lemma main_init1 s p : cinvp s p -> c_pc s = PInit1 -> exists p', cinvp (mstep s) p'.
  Proof.
    intros I Hpc. pose proof I as [B C]. unfold main_step. rewrite Hpc.
    pose proof (cp_phase _ _ _ _ _ C) as Hph. unfold phase_rel in Hph. rewrite Hpc in Hph.
    destruct Hph as (Hp0 & Hph & Hfin).
    assert (Hek : c_exc s = true -> c_kill s = true)
      by (apply (excpc_init s p C); rewrite Hpc; cbn; auto; discriminate).
    destruct (f_temp (c_fs s)) as [d|] eqn:Et.
    - destruct (do_op pl pc0 s ORmTemp) as [s' ok] eqn:Ed.
      destruct (main_event s p ORmTemp s' ok (fun _ => PhInit) (fun _ => p_tmp p) (fun _ => p_fin p) I
                  (fun oc => pstep_rmtemp pc0 p oc Hph) (or_introl Hp0) Ed)
        as (oc & B' & Ha & Hpc' & Htd & Hi & Hrec & Hpend & Hexc & Hkill & Hok1 & Hok2 & _).
      destruct ok.
      + assert (oc = Done) by auto; subst oc. eexists.
        assert (Hf' : c_fs s' = mkFs None (f_final (c_fs s))) by (cbn in Ha; rewrite Et in Ha; inversion Ha; reflexivity).
        eapply (cpc_move s p s'); eauto; try (rewrite Hpc; cbn; try discriminate; auto; fail).
        * cbn. apply Bool.orb_false_r.
        * unfold phase_rel. cbn. rewrite Hf', Hpend. cbn. auto.
        * discriminate.
        * rewrite Hp0. discriminate.
        * discriminate.
      + eexists. apply abort_inv; [exact B' | rewrite Hpend, Hp0; reflexivity].
    - exists p. eapply (cpc_move s p s p); eauto; try (rewrite Hpc; cbn; try discriminate; auto; fail).
      + unfold phase_rel. cbn. auto.
      + discriminate.
      + rewrite Hp0. discriminate.
      + discriminate.
  Qed.

  (* FileSaver.__init__: makedirs of the temp directory *)
  Lemma main_init2 s p : cinvp s p -> c_pc s = PInit2 -> exists p', cinvp (mstep s) p'.
  Proof.
    intros I Hpc. pose proof I as [B C]. unfold main_step. rewrite Hpc.
    pose proof (cp_phase _ _ _ _ _ C) as Hph. unfold phase_rel in Hph. rewrite Hpc in Hph.
    destruct Hph as (Hp0 & Hph & Hfin & Htemp).
    assert (Hek : c_exc s = true -> c_kill s = true)
      by (apply (excpc_init s p C); rewrite Hpc; cbn; auto; discriminate).
    destruct (do_op pl pc0 s OMkTemp) as [s' ok] eqn:Ed.
    destruct (main_event s p OMkTemp s' ok (fun oc => if did oc then PhOpen else PhInit) (fun _ => []) (fun _ => []) I
                (fun oc => pstep_mktemp pc0 p oc Hph) (or_introl Hp0) Ed)
      as (oc & B' & Ha & Hpc' & Htd & Hi & Hrec & Hpend & Hexc & Hkill & Hok1 & Hok2 & _).
    destruct ok.
    - assert (oc = Done) by auto; subst oc. eexists.
      assert (Hf' : c_fs s' = mkFs (Some []) (f_final (c_fs s))) by (cbn in Ha; rewrite Htemp in Ha; inversion Ha; reflexivity).
      eapply (cpc_move s p s'); eauto; try (rewrite Hpc; cbn; try discriminate; auto; fail).
      + cbn. apply Bool.orb_false_r.
      + cbn. destruct (cb_inv _ _ _ _ B) as [_ Hl]. rewrite Hph in Hl. symmetry; apply Hl.
      + unfold phase_rel. cbn. rewrite Hf', Hpend. cbn. auto.
      + discriminate.
      + rewrite Hp0. discriminate.
      + discriminate.
    - eexists. apply abort_inv; [exact B' | rewrite Hpend, Hp0; reflexivity].
  Qed.

  (* FileSaver.__init__: the first metadata flush *)
  Lemma main_init3 s p : cinvp s p -> c_pc s = PInit3 -> exists p', cinvp (mstep s) p'.
  Proof.
    intros I Hpc. pose proof I as [B C]. unfold main_step. rewrite Hpc.
    pose proof (cp_phase _ _ _ _ _ C) as Hph. unfold phase_rel in Hph. rewrite Hpc in Hph.
    destruct Hph as (Hp0 & Hph & Hfin).
    assert (Hek : c_exc s = true -> c_kill s = true)
      by (apply (excpc_init s p C); rewrite Hpc; cbn; auto; discriminate).
    destruct (do_op pl pc0 s (OWriteMeta (mkMeta [] false false))) as [s' ok] eqn:Ed.
    assert (Hrun : running_ok pc0 p (mkMeta [] false false) = true)
      by (unfold running_ok; cbn; apply Bool.orb_true_r).
    destruct (main_event s p _ s' ok (fun _ => PhOpen) (fun _ => p_tmp p) (fun _ => p_fin p) I
                (fun oc => pstep_meta_running pc0 p (mkMeta [] false false) oc Hph eq_refl Hrun) (or_introl Hp0) Ed)
      as (oc & B' & Ha & Hpc' & Htd & Hi & Hrec & Hpend & Hexc & Hkill & Hok1 & Hok2 & _).
    destruct ok.
    - assert (oc = Done) by auto; subst oc. eexists.
      eapply (cpc_move s p s'); eauto; try (rewrite Hpc; cbn; try discriminate; auto; fail).
      + cbn. apply Bool.orb_false_r.
      + unfold phase_rel. cbn. split; [reflexivity|].
        rewrite (final_kept _ _ _ _ Ha); [exact Hfin | discriminate | discriminate].
      + discriminate.
      + rewrite Hp0. discriminate.
      + discriminate.
    - eexists. apply abort_inv; [exact B' | rewrite Hpend, Hp0; reflexivity].
  Qed.
