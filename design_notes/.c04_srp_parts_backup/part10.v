(* C04 -- proofs about the saver as the code runs it (Model/SaverRun.v): for every fault plan and every
   schedule the issued operations follow the protocol (so Proof/FsProtocolProof applies), a failure reaches
   the caller, and a fault-free retry ends visible and correct.  The pinned save_from is refuted. *)
From SV Require Import Model.FsProtocol Model.SaverRun Proof.FsProtocolProof.

(* ------------------------------------------------------------------------------------------ *)
(* small facts                                                                                *)
(* ------------------------------------------------------------------------------------------ *)

Lemma number_from_app a l1 l2 :
  number_from a (l1 ++ l2) = number_from a l1 ++ number_from (a + Z.of_nat (length l1)) l2.
Proof.
  revert a; induction l1 as [|[n v] l1 IH]; intros a; cbn [number_from app length].
  - rewrite Z.add_0_r. reflexivity.
  - rewrite IH. f_equal. f_equal. f_equal. lia.
Qed.

Lemma number_from_ids a l i n v : In (i, n, v) (number_from a l) -> a <= i.
Proof.
  revert a; induction l as [|[n' v'] l IH]; intros a H; cbn in H; [destruct H|].
  destruct H as [H|H]; [inversion H; lia | apply IH in H; lia].
Qed.

Lemma infos_app a b : infos (a ++ b) = infos a ++ infos b.
Proof. unfold infos. apply map_app. Qed.

Definition worker_faultless (pl : plan) : Prop :=
  forall nf k i v, pl nf k (OWriteTmp i v) = None /\ pl nf k (ORenameChunk i) = None.

(* the monitor's answers, by operation *)
Section Psteps.
  Variable c : pcfg.
  Variable p : pst.

  Lemma pstep_rmfinal oc : p_ph p = PhInit -> p_allow_rm c = true ->
    pstep c p (ORmFinal, oc) = Some (mkPst PhInit (p_failed p || is_fail oc) (p_tmp p) (p_fin p)).
  Proof. intros H1 H2. unfold pstep. rewrite H1, H2. reflexivity. Qed.

  Lemma pstep_rmtemp oc : p_ph p = PhInit ->
    pstep c p (ORmTemp, oc) = Some (mkPst PhInit (p_failed p || is_fail oc) (p_tmp p) (p_fin p)).
  Proof. intros H1. unfold pstep. rewrite H1. reflexivity. Qed.

  Lemma pstep_mktemp oc : p_ph p = PhInit ->
    pstep c p (OMkTemp, oc) = Some (mkPst (if did oc then PhOpen else PhInit) (p_failed p || is_fail oc) [] []).
  Proof. intros H1. unfold pstep. rewrite H1. reflexivity. Qed.

  Lemma pstep_wtmp i v oc : p_ph p = PhOpen ->
    pstep c p (OWriteTmp i v, oc) =
    Some (mkPst PhOpen (p_failed p || is_fail oc)
            (match oc with
             | Done | Failed EFull => (i, v) :: rm_i i (p_tmp p)
             | Failed ETrunc => rm_i i (p_tmp p)
             | Failed ENone => p_tmp p
             end) (p_fin p)).
  Proof. intros H1. unfold pstep. rewrite H1. reflexivity. Qed.

  Lemma pstep_rename i oc : p_ph p = PhOpen ->
    pstep c p (ORenameChunk i, oc) =
    Some (if did oc
          then mkPst PhOpen (p_failed p || is_fail oc) (rm_i i (p_tmp p))
                 (match lookup_i i (p_tmp p) with
                  | Some v => (i, v) :: rm_i i (p_fin p)
                  | None => rm_i i (p_fin p)
                  end)
          else mkPst PhOpen (p_failed p || is_fail oc) (p_tmp p) (p_fin p)).
  Proof. intros H1. unfold pstep. rewrite H1. reflexivity. Qed.

  Lemma pstep_meta_running m oc : p_ph p = PhOpen -> m_ended m = false -> running_ok c p m = true ->
    pstep c p (OWriteMeta m, oc) = Some (mkPst PhOpen (p_failed p || is_fail oc) (p_tmp p) (p_fin p)).
  Proof. intros H1 H2 H3. unfold pstep. rewrite H1, H2, H3. reflexivity. Qed.

  Lemma pstep_meta_closing m oc : p_ph p = PhOpen -> m_ended m = true -> closing_ok c p m = true ->
    pstep c p (OWriteMeta m, oc) =
    Some (mkPst (match oc with Done => PhClosing | Failed _ => PhOpen end) (p_failed p || is_fail oc) (p_tmp p) (p_fin p)).
  Proof. intros H1 H2 H3. unfold pstep. rewrite H1, H2, H3. reflexivity. Qed.

  Lemma pstep_rendir oc : p_ph p = PhClosing ->
    pstep c p (ORenameDir, oc) = Some (mkPst (if did oc then PhDone else PhClosing) (p_failed p || is_fail oc) (p_tmp p) (p_fin p)).
  Proof. intros H1. unfold pstep. rewrite H1. reflexivity. Qed.

  Lemma pstep_upexc oc : pstep c p (OUpExc, oc) = Some (mkPst (p_ph p) true (p_tmp p) (p_fin p)).
  Proof. reflexivity. Qed.
End Psteps.

(* do_op: exactly one event is recorded, applied to the file system and fed to the monitor *)
Lemma do_op_spec pl pc0 s o s' ok :
  do_op pl pc0 s o = (s', ok) ->
  exists oc f',
    apply_ev (c_fs s) (o, oc) = Some f' /\
    c_pc s' = c_pc s /\ c_fs s' = f' /\ c_todo s' = c_todo s /\ c_i s' = c_i s /\ c_rec s' = c_rec s /\
    c_pend s' = c_pend s /\ c_exc s' = c_exc s /\ c_kill s' = c_kill s /\ c_deliv s' = c_deliv s /\
    c_tr s' = (o, oc) :: c_tr s /\
    c_mon s' = match c_mon s with None => None | Some p => pstep pc0 p (o, oc) end /\
    (ok = true -> oc = Done) /\ (ok = false -> is_fail oc = true) /\
    (pl (c_nf s) (length (c_tr s)) o = None -> apply_done (c_fs s) o <> None -> ok = true).
Proof.
  unfold do_op. intros H.
  destruct (pl (c_nf s) (length (c_tr s)) o) as [e|] eqn:Ep.
  - destruct (apply_failed (c_fs s) o e) as [f'|] eqn:Ea; inversion H; subst; clear H.
    + exists (Failed e), f'. cbn. repeat split; auto; try discriminate.
    + exists (Failed ENone), (c_fs s). cbn. repeat split; auto; try discriminate.
  - destruct (apply_done (c_fs s) o) as [f'|] eqn:Ea; inversion H; subst; clear H.
    + exists Done, f'. cbn. repeat split; auto; try discriminate.
    + exists (Failed ENone), (c_fs s). cbn. repeat split; auto; try discriminate; try (intros _ C; contradiction).
Qed.
