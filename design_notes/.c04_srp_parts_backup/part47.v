
  (* --- the loop of save_from / SaverSpy.receive ----------------------------------------------- *)
  Lemma upexc_fs f oc f' : apply_ev f (OUpExc, oc) = Some f' -> f' = f.
  Proof. destruct oc as [|[]]; cbn; intros H; inversion H; reflexivity. Qed.

  Lemma NoDup_app_single (l : list Z) x : NoDup l -> ~ In x l -> NoDup (l ++ [x]).
  Proof.
    induction l as [|a l IH]; intros Hn Hx; cbn; [constructor; [intros []| constructor]|].
    inversion Hn; subst. constructor.
    - intros Hin. apply in_app_or in Hin as [Hin|[<-|[]]]; [contradiction|]. apply Hx. left; reflexivity.
    - apply IH; auto. intros Hin. apply Hx. right; exact Hin.
  Qed.

  Lemma existsb_app_single (f : task -> bool) l t : f t = false -> existsb f (l ++ [t]) = existsb f l.
  Proof. intros H. rewrite existsb_app. cbn. rewrite H. rewrite !Bool.orb_false_r. reflexivity. Qed.

  Lemma forallb_app_single (f : task -> bool) l t : forallb f (l ++ [t]) = forallb f l && f t.
  Proof. rewrite forallb_app. cbn. rewrite Bool.andb_true_r. reflexivity. Qed.

  Lemma main_loop s p : cinvp s p -> c_pc s = PLoop -> exists p', cinvp (mstep s) p'.
  Proof.
    intros I Hpc. pose proof I as [B C]. unfold main_step. rewrite Hpc.
    pose proof (cp_phase _ _ _ _ _ C) as Hph. unfold phase_rel in Hph. rewrite Hpc in Hph.
    assert (Hek : c_exc s = true -> c_kill s = true).
    { intros He. destruct (cp_excpc _ _ _ _ _ C He) as [H|H]; [exact H | rewrite Hpc in H; destruct H]. }
    destruct (negb (c_kill s) && match in_upfail inp with Some k => Nat.eqb k (c_deliv s) | None => false end) eqn:Eup.
    - (* the source fails: the exception is thrown into the saver *)
      destruct (do_op pl pc0 s OUpExc) as [s' ok] eqn:Ed.
      destruct (main_event_b s p OUpExc s' ok (fun _ => p_ph p) (fun _ => true) (fun _ => p_tmp p) (fun _ => p_fin p) B
                  (fun oc => pstep_upexc pc0 p oc) (fun _ _ => eq_refl)
                  (or_intror (fun _ => conj eq_refl eq_refl)) Ed)
        as (oc & B' & Ha & Hpc' & Htd & Hi & Hrec & Hpend & Hexc & Hkill & Hok1 & Hok2 & _).
      eexists. apply handler_inv.
      + exact B'.
      + reflexivity.
      + cbn [p_ph]. rewrite (upexc_fs _ _ _ Ha). exact Hph.
      + rewrite Hpc', Hpc. reflexivity.
      + rewrite Hpc', Hpc. discriminate.
      + rewrite Hexc, Hkill. exact Hek.
      + auto.
    - destruct (c_todo s) as [|[n v] rest] eqn:Etodo.
      + (* the source is exhausted *)
        assert (Hmove : forall x, (x = PWait \/ (x = PClose /\ c_pend s = [])) -> cinvp (set_pc s x) p).
        { intros x Hx.
          apply (cpc_move s p s p x I B eq_refl eq_refl eq_refl eq_refl eq_refl eq_refl eq_refl eq_refl).
          - rewrite Hpc; discriminate.
          - destruct Hx as [->|[-> _]]; exact Hph.
          - rewrite Hpc; discriminate.
          - destruct Hx as [->|[-> _]]; discriminate.
          - intros _. right. exact Etodo.
          - destruct Hx as [->|[-> Hp0]]; [intros _; split; [reflexivity | discriminate] | rewrite Hp0; discriminate].
          - destruct Hx as [->|[-> Hp0]]; [discriminate | rewrite Hp0; discriminate].
          - intros _. right. destruct Hx as [->|[-> _]]; constructor. }
        exists p. destruct (c_kill s) eqn:Ek.
        * apply Hmove. right. split; [reflexivity | apply (kill_no_tasks s p B Ek)].
        * destruct (r_proc cfg) eqn:Epr.
          -- apply Hmove. right. split; [reflexivity | apply (single_no_tasks s p B Epr)].
          -- apply Hmove. left. reflexivity.
      + (* the next chunk *)
        exists p.
        (* data_inv of the state in which chunk (n, v) is being saved, for a pending list l *)
        assert (D1 : c_exc s = false ->
                     exists dn, expected_of inp = dn ++ number_from (c_i s) ([(n, v)] ++ rest) /\ c_rec s = infos dn /\
                       (forall i n' v', In (i, n', v') dn -> i < c_i s) /\
                       (forall i n' v', In (i, n', v') dn -> n' <> 0 -> chunk_ok p (c_pend s) i v') /\
                       (forall t, In t (c_pend s) -> t_i t < c_i s)).
        { intros He. destruct (cp_data _ _ _ _ _ C He) as (dn & cur & Hx & Hr & Hc & Hlt & Hch & Ht); [rewrite Hpc; discriminate|].
          unfold cur_ok in Hc. rewrite Hpc in Hc. subst cur. rewrite Etodo in Hx. exists dn. repeat split; auto.
          intros t Hin. destruct (Ht t Hin) as [H|[_ [n' H]]]; [exact H | rewrite Hpc in H; discriminate]. }
        destruct (n =? 0) eqn:En.
        * (* an empty chunk: no file *)
          split; [destruct B; constructor; cbn; auto|].
          constructor; cbn [set_pc c_pc c_pend c_exc c_kill c_fs c_i c_todo c_rec].
          -- exact Hph.
          -- auto.
          -- intros _. split; [reflexivity | discriminate].
          -- discriminate.
          -- intros He. left; auto.
          -- intros _ Hpf. apply (cp_J _ _ _ _ _ C); [rewrite Hpc; discriminate | exact Hpf].
          -- intros He _. destruct (D1 He) as (dn & Hx & Hr & Hlt & Hch & Ht).
             exists dn, [(n, v)]. cbn [set_pc c_pc c_pend c_exc c_kill c_fs c_i c_todo c_rec].
             split; [exact Hx|]. split; [exact Hr|]. split.
             { exists v. split; [reflexivity|]. apply Z.eqb_eq in En. intros; contradiction. }
             split; [exact Hlt|]. split; [exact Hch|]. intros t Hin. left. auto.
        * destruct (is_async cfg && negb (c_kill s)) eqn:Eas.
          -- (* thread-pool saving: submit the write *)
             apply Bool.andb_true_iff in Eas as [Eas Ekf]. apply Bool.negb_true_iff in Ekf.
             set (t := mkTask (c_i s) v TNew).
             assert (Hids : c_exc s = false -> forall u, In u (c_pend s) -> t_i u <> t_i t).
             { intros He u Hu. destruct (D1 He) as (dn & _ & _ & _ & _ & Ht). specialize (Ht u Hu). cbn. lia. }
             assert (Hexc0 : c_exc s = false).
             { destruct (c_exc s) eqn:E; [|reflexivity]. rewrite (Hek eq_refl) in Ekf. discriminate. }
             split.
             ++ destruct B as [Bm Bi Be Bk Bt Bn Ba Bp].
                constructor; cbn [set_pc set_pend c_pc c_pend c_exc c_kill c_fs c_i c_todo c_rec c_mon]; auto.
                ** apply Forall_app. split; [exact Bt | constructor; [exact Logic.I | constructor]].
                ** rewrite map_app. cbn. apply NoDup_app_single; [exact Bn|].
                   intros Hin. apply in_map_iff in Hin as (u & Hu1 & Hu2). apply (Hids Hexc0 u Hu2). exact Hu1.
                ** intros Hv. rewrite existsb_app_single; [apply Bp; exact Hv | reflexivity].
             ++ constructor; cbn [set_pc set_pend c_pc c_pend c_exc c_kill c_fs c_i c_todo c_rec].
                ** exact Hph.
                ** auto.
                ** intros _. split; [reflexivity | discriminate].
                ** discriminate.
                ** intros He. left; auto.
                ** intros _ Hpf. destruct (cp_J _ _ _ _ _ C) as [H|[H1 H2]]; auto; [rewrite Hpc; discriminate|].
                   right. split; [exact H1|]. rewrite existsb_app_single; [exact H2 | reflexivity].
                ** intros He _. destruct (D1 He) as (dn & Hx & Hr & Hlt & Hch & Ht).
                   exists dn, [(n, v)]. cbn [set_pc set_pend c_pc c_pend c_exc c_kill c_fs c_i c_todo c_rec].
                   split; [exact Hx|]. split; [exact Hr|]. split.
                   { exists v. split; [reflexivity|]. intros _. unfold chunk_ok.
                     cbn [set_pc set_pend c_pc c_pend c_exc c_kill c_fs c_i c_todo c_rec].
                     rewrite (task_for_app_new (c_i s) (c_pend s) t); [reflexivity | | reflexivity].
                     intros u Hu. apply (Hids He u Hu). }
                   split; [exact Hlt|]. split.
                   { intros i n' v' Hin Hn'. specialize (Hch i n' v' Hin Hn'). unfold chunk_ok in *.
                     rewrite task_for_app_other; [exact Hch|]. cbn. specialize (Hlt i n' v' Hin). lia. }
                   intros u Hin. apply in_app_or in Hin as [Hin|[<-|[]]]; [left; auto|].
                   right. split; [reflexivity | eauto].
          -- (* serial saving: strax.save_file right here *)
             split; [destruct B; constructor; cbn; auto|].
             constructor; cbn [set_pc c_pc c_pend c_exc c_kill c_fs c_i c_todo c_rec].
             ++ exact Hph.
             ++ intros Ha Hk. rewrite Ha, Hk in Eas. discriminate.
             ++ intros _. split; [reflexivity | discriminate].
             ++ discriminate.
             ++ intros He. left; auto.
             ++ intros _ Hpf. apply (cp_J _ _ _ _ _ C); [rewrite Hpc; discriminate | exact Hpf].
             ++ intros He _. destruct (D1 He) as (dn & Hx & Hr & Hlt & Hch & Ht).
                exists dn, [(n, v)]. cbn [set_pc c_pc c_pend c_exc c_kill c_fs c_i c_todo c_rec].
                split; [exact Hx|]. split; [exact Hr|]. split.
                { split; [reflexivity|]. apply Z.eqb_neq. exact En. }
                split; [exact Hlt|]. split; [exact Hch|]. intros u Hin. left. auto.
  Qed.
