
  (* --- serial strax.save_file: write the temp file, rename it ----------------------------------- *)
  Lemma pstep_rename' p i oc : p_ph p = PhOpen ->
    pstep pc0 p (ORenameChunk i, oc) =
    Some (mkPst PhOpen (p_failed p || is_fail oc)
            (if did oc then rm_i i (p_tmp p) else p_tmp p)
            (if did oc then match lookup_i i (p_tmp p) with
                            | Some v => (i, v) :: rm_i i (p_fin p)
                            | None => rm_i i (p_fin p)
                            end
             else p_fin p)).
  Proof. intros H. rewrite (pstep_rename pc0 p i oc H). destruct (did oc); reflexivity. Qed.

  Lemma serial_no_tasks s p : cinvp s p ->
    match c_pc s with PSaveW _ _ | PSaveR _ => True | _ => False end -> c_pend s = [].
  Proof.
    intros [B C] Hpc. destruct (c_pend s) as [|t l] eqn:E; [reflexivity|]. exfalso.
    destruct (cb_async _ _ _ _ B) as [Ha Hk]; [rewrite E; discriminate|].
    pose proof (cp_nosync _ _ _ _ _ C Ha Hk) as H. destruct (c_pc s); auto.
  Qed.

  Lemma lookup_i_cons_other i j v l : j <> i -> lookup_i j ((i, v) :: l) = lookup_i j l.
  Proof. intros H. cbn. destruct (i =? j) eqn:E; [apply Z.eqb_eq in E; subst; contradiction | reflexivity]. Qed.

  Lemma main_savew s p n v : cinvp s p -> c_pc s = PSaveW n v -> exists p', cinvp (mstep s) p'.
  Proof.
    intros I Hpc. pose proof I as [B C]. unfold main_step. rewrite Hpc.
    pose proof (cp_phase _ _ _ _ _ C) as Hph. unfold phase_rel in Hph. rewrite Hpc in Hph.
    destruct Hph as [Hph Hfin].
    assert (Hek : c_exc s = true -> c_kill s = true).
    { intros He. destruct (cp_excpc _ _ _ _ _ C He) as [H|H]; [exact H | rewrite Hpc in H; destruct H]. }
    assert (Hp0 : c_pend s = []) by (apply (serial_no_tasks s p I); rewrite Hpc; exact Logic.I).
    destruct (do_op pl pc0 s (OWriteTmp (c_i s) v)) as [s' ok] eqn:Ed.
    destruct (main_event s p _ s' ok (fun _ => PhOpen)
                (fun oc => match oc with
                           | Done | Failed EFull => (c_i s, v) :: rm_i (c_i s) (p_tmp p)
                           | Failed ETrunc => rm_i (c_i s) (p_tmp p)
                           | Failed ENone => p_tmp p
                           end) (fun _ => p_fin p) I
                (fun oc => pstep_wtmp pc0 p (c_i s) v oc Hph) (or_introl Hp0) Ed)
      as (oc & B' & Ha & Hpc' & Htd & Hi & Hrec & Hpend & Hexc & Hkill & Hok1 & Hok2 & _).
    assert (Hfin' : f_final (c_fs s') = None)
      by (rewrite (final_kept _ _ _ _ Ha); [exact Hfin | discriminate | discriminate]).
    destruct ok.
    - assert (oc = Done) by auto; subst oc. eexists.
      split; [apply cbase_set_pc; exact B'|].
      constructor; cbn [set_pc c_pc c_pend c_exc c_kill c_fs c_i c_todo c_rec p_ph p_failed p_tmp p_fin];
        rewrite ?Hpend, ?Hexc, ?Hkill.
      + split; [reflexivity | exact Hfin'].
      + intros H1 H2. pose proof (cp_nosync _ _ _ _ _ C H1 H2) as H. rewrite Hpc in H. exact H.
      + rewrite Hp0. discriminate.
      + discriminate.
      + intros He. left; auto.
      + intros _ Hpf. rewrite Bool.orb_false_r in Hpf. apply (cp_J _ _ _ _ _ C); [rewrite Hpc; discriminate | exact Hpf].
      + intros He _. destruct (cp_data _ _ _ _ _ C He) as (dn & cur & Hx & Hr & Hc & Hlt & Hch & Ht); [rewrite Hpc; discriminate|].
        unfold cur_ok in Hc. rewrite Hpc in Hc. destruct Hc as [-> Hn].
        exists dn, [(n, v)]. cbn [set_pc c_pc c_pend c_exc c_kill c_fs c_i c_todo c_rec]. rewrite Hi, Htd, Hrec, ?Hpend. split; [exact Hx|]. split; [exact Hr|]. split.
        { unfold cur_ok. cbn [set_pc c_pc c_pend c_exc c_kill c_fs c_i c_todo c_rec p_tmp]. rewrite Hi.
          exists v. split; [reflexivity|]. split; [exact Hn|]. cbn. rewrite Z.eqb_refl. reflexivity. }
        split; [exact Hlt|]. split.
        { intros i n' v' Hin Hn'. eapply chunk_ok_fin; [|apply (Hch i n' v' Hin Hn')]. reflexivity. }
        rewrite Hp0. intros t [].
    - eexists. apply handler_inv.
      + exact B'.
      + cbn. rewrite (Hok2 eq_refl). apply Bool.orb_true_r.
      + split; [reflexivity | exact Hfin'].
      + rewrite Hpc', Hpc. reflexivity.
      + rewrite Hpc', Hpc. discriminate.
      + rewrite Hexc, Hkill. exact Hek.
      + auto.
  Qed.

  Lemma main_saver s p n : cinvp s p -> c_pc s = PSaveR n -> exists p', cinvp (mstep s) p'.
  Proof.
    intros I Hpc. pose proof I as [B C]. unfold main_step. rewrite Hpc.
    pose proof (cp_phase _ _ _ _ _ C) as Hph. unfold phase_rel in Hph. rewrite Hpc in Hph.
    destruct Hph as [Hph Hfin].
    assert (Hek : c_exc s = true -> c_kill s = true).
    { intros He. destruct (cp_excpc _ _ _ _ _ C He) as [H|H]; [exact H | rewrite Hpc in H; destruct H]. }
    assert (Hp0 : c_pend s = []) by (apply (serial_no_tasks s p I); rewrite Hpc; exact Logic.I).
    destruct (do_op pl pc0 s (ORenameChunk (c_i s))) as [s' ok] eqn:Ed.
    destruct (main_event s p _ s' ok (fun _ => PhOpen) _ _ I
                (fun oc => pstep_rename' p (c_i s) oc Hph) (or_introl Hp0) Ed)
      as (oc & B' & Ha & Hpc' & Htd & Hi & Hrec & Hpend & Hexc & Hkill & Hok1 & Hok2 & _).
    assert (Hfin' : f_final (c_fs s') = None)
      by (rewrite (final_kept _ _ _ _ Ha); [exact Hfin | discriminate | discriminate]).
    destruct ok.
    - assert (oc = Done) by auto; subst oc. eexists.
      split; [apply cbase_set_pc; exact B'|].
      constructor; cbn [set_pc c_pc c_pend c_exc c_kill c_fs c_i c_todo c_rec p_ph p_failed p_tmp p_fin did];
        rewrite ?Hpend, ?Hexc, ?Hkill.
      + split; [reflexivity | exact Hfin'].
      + auto.
      + rewrite Hp0. discriminate.
      + discriminate.
      + intros He. left; auto.
      + intros _ Hpf. rewrite Bool.orb_false_r in Hpf. apply (cp_J _ _ _ _ _ C); [rewrite Hpc; discriminate | exact Hpf].
      + intros He _. destruct (cp_data _ _ _ _ _ C He) as (dn & cur & Hx & Hr & Hc & Hlt & Hch & Ht); [rewrite Hpc; discriminate|].
        unfold cur_ok in Hc. rewrite Hpc in Hc. destruct Hc as (v & -> & Hn & Hl).
        exists dn, [(n, v)]. cbn [set_pc c_pc c_pend c_exc c_kill c_fs c_i c_todo c_rec]. rewrite Hi, Htd, Hrec, ?Hpend. split; [exact Hx|]. split; [exact Hr|]. split.
        { unfold cur_ok. cbn [set_pc c_pc c_pend c_exc c_kill c_fs c_i c_todo c_rec p_fin]. rewrite Hi, Hpend, Hp0.
          exists v. split; [reflexivity|]. intros _. unfold chunk_ok. cbn [task_for find p_fin].
          rewrite Hl. cbn. rewrite Z.eqb_refl. reflexivity. }
        split; [exact Hlt|]. split.
        { intros i n' v' Hin Hn'. specialize (Hch i n' v' Hin Hn'). specialize (Hlt i n' v' Hin).
          rewrite Hp0 in *. unfold chunk_ok in *. cbn [task_for find p_fin] in *. rewrite Hl.
          rewrite lookup_i_cons_other by lia. rewrite lookup_i_rm_other by lia. exact Hch. }
        rewrite Hp0. intros t [].
    - eexists. apply handler_inv.
      + exact B'.
      + cbn. rewrite (Hok2 eq_refl). apply Bool.orb_true_r.
      + split; [reflexivity | exact Hfin'].
      + rewrite Hpc', Hpc. reflexivity.
      + rewrite Hpc', Hpc. discriminate.
      + rewrite Hexc, Hkill. exact Hek.
      + auto.
  Qed.
