"""Demonstration of the C02 findings on the real strax (run: PYTHONPATH=/repo /venv/bin/python design_notes/C02_demo_d4.py).

D4        re-registering a same-named, same-version class with another option default is served from the
          plugin cache: stale key and rows, a brand-new context computes others.
shadow    an option named like a data type is invisible to _context_hash.
F2        fuzzy matching rejects data when another tracked option has a tuple value.
F3        {k: v} and [[k, v]] have the same deterministic_hash.
With the patch design_notes/C02_context_hash.patch the first two print 'ok'."""
import logging
import shutil
import tempfile

import numpy as np
import strax

logging.disable(logging.WARNING)
DT = strax.time_fields + [(("value", "v"), np.int64)]


def source(name, provides, opts, version="0.0.1"):
    def compute(self, chunk_i):
        r = np.zeros(2, self.dtype)
        r["time"] = np.arange(2) * 10
        r["endtime"] = r["time"] + 10
        r["v"] = self.config[opts[0].name]
        return self.chunk(start=0, end=20, data=r)
    cls = type(name, (strax.Plugin,), dict(provides=(provides,), depends_on=(), dtype=DT, __version__=version,
               data_kind=provides, source_finished=lambda self: True, is_ready=lambda self, i: i < 1, compute=compute))
    return strax.takes_config(*opts)(cls)


tmp = tempfile.mkdtemp()
try:
    # D4
    A1 = source("AA", "aa", [strax.Option("x", default=1)])
    A2 = source("AA", "aa", [strax.Option("x", default=2)])
    st = strax.Context(storage=strax.DataDirectory(tmp + "/d4"), register=[A1])
    st.key_for("0", "aa")
    st.register(A2)
    fresh = strax.Context(storage=strax.DataDirectory(tmp + "/d4_fresh"), register=[A2])
    k, kf = st.key_for("0", "aa"), fresh.key_for("0", "aa")
    v, vf = st.get_array("0", "aa", progress_bar=False)["v"], fresh.get_array("0", "aa", progress_bar=False)["v"]
    print("D4      cached:", k, list(v), " brand-new context:", kf, list(vf), "->", "ok" if str(k) == str(kf) else "STALE")
    # shadow
    S = source("SS", "ss", [strax.Option("ss", default=1)])
    st = strax.Context(storage=strax.DataDirectory(tmp + "/sh"), register=[S])
    st.key_for("0", "ss")
    st.set_config({"ss": 2})
    fresh = strax.Context(storage=strax.DataDirectory(tmp + "/sh_fresh"), register=[S], config={"ss": 2})
    k, kf = st.key_for("0", "ss"), fresh.key_for("0", "ss")
    v = st.get_array("0", "ss", progress_bar=False)["v"]
    print("shadow  cached:", k, list(v), " brand-new context:", kf, "->",
          "ok" if str(k) == str(kf) else "STALE (rows of the new value saved under the old key)")
    # F2
    B = source("BB", "bb", [strax.Option("x", default=1), strax.Option("t", default=(1, 2)), strax.Option("y", default=5)])
    st = strax.Context(storage=strax.DataDirectory(tmp + "/fz"), register=[B])
    st.make("0", "bb", progress_bar=False)
    st2 = strax.Context(storage=strax.DataDirectory(tmp + "/fz"), register=[B], config=dict(y=6), fuzzy_for_options=("y",))
    print("F2      only the fuzzy option y differs, tuple-valued option t present: is_stored =", st2.is_stored("0", "bb"))
    # F3
    print("F3      hash({'o': {'k': 1}}) =", strax.deterministic_hash({"o": {"k": 1}}),
          " hash({'o': [['k', 1]]}) =", strax.deterministic_hash({"o": [["k", 1]]}))
finally:
    shutil.rmtree(tmp, ignore_errors=True)
