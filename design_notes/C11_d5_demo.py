"""D5 demonstration (C11): a multi-output plugin with one stored output and one output that must be recomputed.

    PYTHONPATH=/repo /venv/bin/python design_notes/C11_d5_demo.py

On the pinned tree the threaded processor dies (the mailbox of the stored output has two senders: its
loader and the plugin's divide_outputs); the single-thread processor returns the right rows.  With the
patch of design_notes/C11.md both succeed.
"""
import os
import shutil
import tempfile

import numpy as np
import strax
from immutabledict import immutabledict

DT = [(("Start time", "time"), np.int64), (("End time", "endtime"), np.int64), (("value", "x"), np.int64)]


class Source(strax.Plugin):
    """Two outputs, no dependencies."""
    provides = ("aa", "bb")
    depends_on = tuple()
    data_kind = immutabledict(aa="aa", bb="bb")
    dtype = dict(aa=DT, bb=DT)
    rechunk_on_save = False
    parallel = False

    def source_finished(self):
        return True

    def is_ready(self, chunk_i):
        return chunk_i < 2

    def compute(self, chunk_i):
        out = {}
        for d in self.provides:
            r = np.zeros(2, DT)
            r["time"] = 10 * chunk_i + np.arange(2)
            r["endtime"] = r["time"] + 1
            out[d] = self.chunk(start=10 * chunk_i, end=10 * chunk_i + 10, data=r, data_type=d)
        return out


class Consumer(strax.Plugin):
    provides = "cc"
    depends_on = ("aa", "bb")
    data_kind = "cc"
    dtype = DT
    rechunk_on_save = False

    def compute(self, aa, bb):
        r = np.zeros(len(aa), DT)
        r["time"], r["endtime"], r["x"] = aa["time"], aa["endtime"], aa["x"] + bb["x"]
        return r


def main():
    tmp = tempfile.mkdtemp()
    try:
        for processor in ("single_thread", "threaded_mailbox"):
            path = os.path.join(tmp, processor)
            st = strax.Context(storage=[strax.DataDirectory(path)], register=[Source, Consumer],
                               allow_multiprocess=False, timeout=10)
            st.make("0", "cc", processor="single_thread")             # everything stored
            for fn in os.listdir(path):                               # keep only `aa`
                if "-aa-" not in fn:
                    shutil.rmtree(os.path.join(path, fn))
            comps = st.get_components("0", "cc")
            print(processor, "plan: compute", list(comps.plugins), "load", list(comps.loaders))
            try:
                a = st.get_array("0", "cc", processor=processor, progress_bar=False)
                print(processor, "-> ok,", len(a), "rows")
            except Exception as e:  # noqa
                print(processor, "-> FAILS:", type(e).__name__, str(e)[:150])
    finally:
        shutil.rmtree(tmp, ignore_errors=True)


if __name__ == "__main__":
    main()
